// Package c11: step-mode correspondence of the DHCPv4 server (handlers/dhcp4_spoofer) against
// Model/Dhcp4Srv.lean, with the property oracles of C11 (address uniqueness / reserved addresses)
// and C12 (reply conformance) evaluated on the observed replies along every history with an
// independent ledger.
//
// Protocol line (one per history):
//
//	dhcp.hist <cfg>:<mode> <op>;<op>;… @ <cfgdump> <pre> <op> <post> <replies> [<pre> <op> <post> <replies>]…
//
// Eval re-runs the history (tokens 1..2) on the real code from a fresh handler and regenerates
// everything after `@` from what it observed (one group per step, or only the steps not checked
// before when called from the generator); the model answers `accept` iff every group is a step of
// Model.step.
package c11

import (
	"bytes"
	"encoding/binary"
	"encoding/hex"
	"fmt"
	"io"
	"net"
	"net/netip"
	"os"
	"regexp"
	"runtime"
	"sort"
	"strconv"
	"strings"
	"time"

	"github.com/irai/packet"
	"github.com/irai/packet/fastlog"
	dhcp "github.com/irai/packet/handlers/dhcp4_spoofer"
	"verif/harness/core"
	"verif/harness/sess"
)

var Runner = core.Runner{Gen: Gen, Eval: Eval}

// ---------------------------------------------------------------------------------------------
// configurations

type NetCfg struct {
	Name      string
	Home      netip.Prefix
	Host      netip.Addr
	Router    netip.Addr
	Netfilter netip.Prefix
	DNS       netip.Addr
}

var Cfgs = []NetCfg{
	// /24 home LAN, /29 netfilter pool (usable .130–.134)
	{"h24n29", netip.MustParsePrefix("192.168.0.0/24"), netip.MustParseAddr("192.168.0.129"), netip.MustParseAddr("192.168.0.11"),
		netip.MustParsePrefix("192.168.0.129/29"), netip.MustParseAddr("8.8.8.8")},
	// /28 home LAN, /29 netfilter pool: both pools wrap around quickly
	{"h28n29", netip.MustParsePrefix("10.1.0.0/28"), netip.MustParseAddr("10.1.0.9"), netip.MustParseAddr("10.1.0.1"),
		netip.MustParsePrefix("10.1.0.9/29"), netip.MustParseAddr("10.1.0.1")},
	// netfilter prefix = home prefix (what dhcp4_spoofer.New configures by default)
	{"h29same", netip.MustParsePrefix("172.16.5.0/29"), netip.MustParseAddr("172.16.5.2"), netip.MustParseAddr("172.16.5.1"),
		netip.MustParsePrefix("172.16.5.2/29"), netip.MustParseAddr("9.9.9.9")},
	// variants of h24n29 that differ in ONE SubnetConfig field each: targets of "restart with a changed configuration"
	{"h24n29-dns", netip.MustParsePrefix("192.168.0.0/24"), netip.MustParseAddr("192.168.0.129"), netip.MustParseAddr("192.168.0.11"),
		netip.MustParsePrefix("192.168.0.129/29"), netip.MustParseAddr("9.9.9.9")},
	{"h24n29-nfgw", netip.MustParsePrefix("192.168.0.0/24"), netip.MustParseAddr("192.168.0.129"), netip.MustParseAddr("192.168.0.11"),
		netip.MustParsePrefix("192.168.0.130/29"), netip.MustParseAddr("8.8.8.8")},
	{"h24n29-nflen", netip.MustParsePrefix("192.168.0.0/24"), netip.MustParseAddr("192.168.0.129"), netip.MustParseAddr("192.168.0.11"),
		netip.MustParsePrefix("192.168.0.129/28"), netip.MustParseAddr("8.8.8.8")},
	{"h24n29-router", netip.MustParsePrefix("192.168.0.0/24"), netip.MustParseAddr("192.168.0.129"), netip.MustParseAddr("192.168.0.12"),
		netip.MustParsePrefix("192.168.0.129/29"), netip.MustParseAddr("8.8.8.8")},
	{"h24n29-host", netip.MustParsePrefix("192.168.0.0/24"), netip.MustParseAddr("192.168.0.133"), netip.MustParseAddr("192.168.0.11"),
		netip.MustParsePrefix("192.168.0.129/29"), netip.MustParseAddr("8.8.8.8")},
	{"h24n29-homelen", netip.MustParsePrefix("192.168.0.0/23"), netip.MustParseAddr("192.168.0.129"), netip.MustParseAddr("192.168.0.11"),
		netip.MustParsePrefix("192.168.0.129/29"), netip.MustParseAddr("8.8.8.8")},
}

// NumBase: the configurations explored exhaustively / randomly; the rest are restart targets only.
const NumBase = 3

var (
	sessions = map[int]*packet.Session{}
	conns    = map[int]*sess.RecConn{}
	base     time.Time // canonical clock origin = process start - 1000h
	quiet    bool
)

const hour = int64(3600)

var worlds int

func initOnce() {
	if !base.IsZero() {
		return
	}
	base = time.Now().Add(-1000 * time.Hour)
	fastlog.DefaultIOWriter = io.Discard
	dhcp.Logger.SetLevel(fastlog.LevelError)
	packet.Logger.SetLevel(fastlog.LevelError)
}

// canon maps a wall-clock time to the canonical clock (seconds, floored to the hour; the whole
// run takes less than an hour, so every time.Now() inside the server maps to 1000h).
func canon(t time.Time) int64 {
	if t.IsZero() || t.Before(base) {
		return 0
	}
	return int64(t.Sub(base)/time.Hour) * hour
}

func vtime(h int64) time.Time { return base.Add(time.Duration(h) * time.Hour) }

func u32(a netip.Addr) uint32 {
	b := a.As4()
	return binary.BigEndian.Uint32(b[:])
}

func addr(v uint32) netip.Addr {
	var b [4]byte
	binary.BigEndian.PutUint32(b[:], v)
	return netip.AddrFrom4(b)
}

func session(i int) (*packet.Session, *sess.RecConn) {
	if s, ok := sessions[i]; ok {
		return s, conns[i]
	}
	c := Cfgs[i]
	nic := &packet.NICInfo{
		HostAddr4:   packet.Addr{MAC: sess.HostMAC, IP: c.Host},
		RouterAddr4: packet.Addr{MAC: sess.RouterMAC, IP: c.Router},
		HomeLAN4:    c.Home,
		HostLLA:     sess.HostLLA,
		RouterLLA:   sess.RouterLLA,
	}
	s, conn := sess.New(nic)
	go func() { // drain notifications
		for range s.C {
		}
	}()
	sessions[i], conns[i] = s, conn
	settleGoroutines()
	return s, conn
}

// settleGoroutines waits until the number of goroutines has stopped changing.  sess.New stops the timers of the new
// session (minute loop, NIC monitor): their goroutines END a moment later.  Apply decides that "the senders the
// handler started are gone" by comparing runtime.NumGoroutine() with its value before the call, so a timer goroutine
// that ends during the first DISCOVER on a new session hides the sender of the forged DECLINE: the wait ends at
// once, the DECLINE is written during a later step and the side-frame oracle reports it against that step (bO: seen
// once under load, on the first history of a replay; the same history passes when replayed again).
func settleGoroutines() {
	last, same := runtime.NumGoroutine(), 0
	for deadline := time.Now().Add(3 * time.Second); same < 40 && time.Now().Before(deadline); {
		runtime.Gosched()
		time.Sleep(500 * time.Microsecond)
		if n := runtime.NumGoroutine(); n == last {
			same++
		} else {
			last, same = n, 0
		}
	}
}

type World struct {
	CfgIdx int
	Cfg    *NetCfg
	Mode   int
	S      *packet.Session
	Conn   *sess.RecConn
	H      *dhcp.Handler
	File   string // lease file ("" = none)
	// the ONE receive buffer every frame of this world is received in (what a read loop / buffer pool does);
	// it is overwritten as soon as ProcessPacket has returned
	rx []byte
}

// NewWorld: fresh handler over the (reset) session of configuration i; filename "" = no lease file.
func NewWorld(i, mode int, filename string) (*World, error) {
	return NewWorldCaptured(i, mode, filename, nil, true)
}

// NewWorldCaptured: as NewWorld; when reset is set the session forgets hosts and captures first, then the
// given MACs are captured before the handler is constructed (the constructor consults IsCaptured).
func NewWorldCaptured(i, mode int, filename string, captured [][]byte, reset bool) (*World, error) {
	initOnce()
	// every third world runs with the library's loggers at debug level: every log line of the handler and of the
	// session is then formatted (output discarded), so a log call that panics (nil record, a field appended after a
	// truncated one, an over-long name) is a handler panic the oracles see; behaviour must not depend on the level
	worlds++
	lvl := fastlog.LevelError
	if worlds%3 == 0 {
		lvl = fastlog.LevelDebug
	}
	dhcp.Logger.SetLevel(lvl)
	packet.Logger.SetLevel(lvl)
	s, conn := session(i)
	c := &Cfgs[i]
	if reset {
		for _, m := range s.VerifCaptured() {
			s.Release(m)
		}
		for _, a := range s.VerifHosts() {
			if a.IP != c.Host && a.IP != c.Router {
				s.VerifDeleteHost(a.IP)
			}
		}
		// the two entries a new session starts with: a history may have deleted them or given their address to a
		// client (host / nohost steps; in h29same the host address is inside the pool's prefix) - a world that started
		// from what the previous history left explores other states than the same history replayed in a new process
		s.VerifSetHost(c.Host, sess.HostMAC)
		s.VerifSetHost(c.Router, sess.RouterMAC)
	}
	for _, m := range captured {
		s.Capture(net.HardwareAddr(m))
	}
	h, err := dhcp.Config{Mode: dhcp.Mode(mode), NetfilterIP: c.Netfilter, DNSServer: c.DNS, LeaseFilename: filename}.New(s)
	if err != nil {
		return nil, err
	}
	conn.Take()
	return &World{CfgIdx: i, Cfg: c, Mode: mode, S: s, Conn: conn, H: h, File: filename, rx: make([]byte, 1514)}, nil
}

// ---------------------------------------------------------------------------------------------
// operations (text form = model op syntax + prl field for messages, + harness-only `age`)

type Op struct {
	Kind   string // discover request decline release tick capture uncapture host nohost age restart
	Cfg    int    // restart: configuration the new handler is constructed with (same lease file, fresh session)
	CHAddr []byte
	CID    []byte // nil = option absent (empty non-nil = present with length 0)
	Req    []byte
	Srv    []byte
	XID    []byte
	CIAddr uint32
	YIAddr uint32
	Src    uint32
	BFlag  bool
	PRL    []byte
	Hours  int64 // tick: canonical hour; age: hours
	MAC    []byte
	IP     uint32
}

func optHex(b []byte) string {
	if b == nil {
		return "~"
	}
	return core.Hex(b)
}

func unOptHex(s string) ([]byte, bool) {
	if s == "~" {
		return nil, true
	}
	if s == "-" {
		return []byte{}, true
	}
	b, err := hex.DecodeString(s)
	return b, err == nil
}

func isMsg(k string) bool {
	return k == "discover" || k == "request" || k == "decline" || k == "release"
}

func b2i(b bool) int {
	if b {
		return 1
	}
	return 0
}

// String: harness syntax (history token).
func (o *Op) String() string {
	switch {
	case isMsg(o.Kind):
		return fmt.Sprintf("%s:0:%s:%s:%s:%s:%s:%d:%d:%d:%d:%s", o.Kind, core.Hex(o.CHAddr), optHex(o.CID), optHex(o.Req), optHex(o.Srv),
			core.Hex(o.XID), o.CIAddr, o.YIAddr, o.Src, b2i(o.BFlag), core.Hex(o.PRL))
	case o.Kind == "tick":
		return fmt.Sprintf("tick:%d", o.Hours)
	case o.Kind == "age":
		return fmt.Sprintf("age:%s:%d", core.Hex(o.CID), o.Hours)
	case o.Kind == "capture" || o.Kind == "uncapture":
		return o.Kind + ":" + core.Hex(o.MAC)
	case o.Kind == "host":
		return fmt.Sprintf("host:%d:%s", o.IP, core.Hex(o.MAC))
	case o.Kind == "nohost":
		return fmt.Sprintf("nohost:%d", o.IP)
	case o.Kind == "restart":
		return fmt.Sprintf("restart:%d", o.Cfg)
	}
	return "?"
}

// modelOp: model syntax with the canonical time.
func (o *Op) modelOp(now int64) string {
	switch {
	case isMsg(o.Kind):
		return fmt.Sprintf("%s:%d:%s:%s:%s:%s:%s:%d:%d:%d:%d", o.Kind, now, core.Hex(o.CHAddr), optHex(o.CID), optHex(o.Req), optHex(o.Srv),
			core.Hex(o.XID), o.CIAddr, o.YIAddr, o.Src, b2i(o.BFlag))
	case o.Kind == "tick":
		return fmt.Sprintf("tick:%d", o.Hours*hour)
	}
	return o.String()
}

func ParseOp(s string) (*Op, bool) {
	f := strings.Split(s, ":")
	o := &Op{Kind: f[0]}
	num := func(s string) uint32 { v, _ := strconv.ParseUint(s, 10, 32); return uint32(v) }
	switch {
	case isMsg(f[0]) && len(f) == 12:
		var ok [6]bool
		o.CHAddr, ok[0] = unOptHex(f[2])
		o.CID, ok[1] = unOptHex(f[3])
		o.Req, ok[2] = unOptHex(f[4])
		o.Srv, ok[3] = unOptHex(f[5])
		o.XID, ok[4] = unOptHex(f[6])
		o.CIAddr, o.YIAddr, o.Src, o.BFlag = num(f[7]), num(f[8]), num(f[9]), f[10] == "1"
		o.PRL, ok[5] = unOptHex(f[11])
		for _, k := range ok {
			if !k {
				return nil, false
			}
		}
		if len(o.CHAddr) != 6 || len(o.XID) != 4 {
			return nil, false
		}
		return o, true
	case f[0] == "tick" && len(f) == 2:
		v, err := strconv.ParseInt(f[1], 10, 64)
		o.Hours = v
		return o, err == nil
	case f[0] == "age" && len(f) == 3:
		o.CID, _ = unOptHex(f[1])
		v, err := strconv.ParseInt(f[2], 10, 64)
		o.Hours = v
		return o, err == nil
	case (f[0] == "capture" || f[0] == "uncapture") && len(f) == 2:
		var ok bool
		o.MAC, ok = unOptHex(f[1])
		return o, ok && len(o.MAC) == 6
	case f[0] == "host" && len(f) == 3:
		var ok bool
		o.IP = num(f[1])
		o.MAC, ok = unOptHex(f[2])
		return o, ok && len(o.MAC) == 6
	case f[0] == "nohost" && len(f) == 2:
		o.IP = num(f[1])
		return o, true
	case f[0] == "restart" && len(f) == 2:
		v, err := strconv.Atoi(f[1])
		o.Cfg = v
		return o, err == nil && v >= 0 && v < len(Cfgs)
	}
	return nil, false
}

func (o *Op) clientID() []byte {
	if len(o.CID) > 0 {
		return o.CID
	}
	return o.CHAddr
}

// ClientID is the identifier the server keys the client by.
func (o *Op) ClientID() []byte { return o.clientID() }

// ---------------------------------------------------------------------------------------------
// independent frame builder / reply decoder

func ipChecksum(h []byte) uint16 {
	var sum uint32
	for i := 0; i+1 < len(h); i += 2 {
		sum += uint32(h[i])<<8 | uint32(h[i+1])
	}
	for sum > 0xffff {
		sum = sum&0xffff + sum>>16
	}
	return ^uint16(sum)
}

var msgType = map[string]byte{"discover": 1, "request": 3, "decline": 4, "release": 7}

// BuildFrame builds Ethernet/IPv4/UDP/DHCP bytes in the given 1514-byte receive buffer (the server encodes its
// reply in place); a nil buffer allocates one.
func BuildFrame(buf []byte, o *Op) []byte {
	if buf == nil {
		buf = make([]byte, 1514)
	}
	for i := range buf {
		buf[i] = 0
	}
	d := buf[42:]
	d[0], d[1], d[2] = 1, 1, 6
	copy(d[4:8], o.XID)
	if o.BFlag {
		d[10] = 0x80
	}
	binary.BigEndian.PutUint32(d[12:], o.CIAddr)
	binary.BigEndian.PutUint32(d[16:], o.YIAddr)
	copy(d[28:34], o.CHAddr)
	copy(d[236:240], []byte{99, 130, 83, 99})
	n := 240
	put := func(code byte, v []byte) {
		d[n], d[n+1] = code, byte(len(v))
		copy(d[n+2:], v)
		n += 2 + len(v)
	}
	put(53, []byte{msgType[o.Kind]})
	if o.CID != nil {
		put(61, o.CID)
	}
	if o.Req != nil {
		put(50, o.Req)
	}
	if len(o.PRL) > 0 {
		put(55, o.PRL)
	}
	if o.Srv != nil {
		put(54, o.Srv)
	}
	d[n] = 255
	n++
	for n < 300 {
		n++
	}
	udp := buf[34:42]
	binary.BigEndian.PutUint16(udp[0:], 68)
	binary.BigEndian.PutUint16(udp[2:], 67)
	binary.BigEndian.PutUint16(udp[4:], uint16(8+n))
	ip := buf[14:34]
	ip[0], ip[8], ip[9] = 0x45, 64, 17
	binary.BigEndian.PutUint16(ip[2:], uint16(20+8+n))
	binary.BigEndian.PutUint32(ip[12:], o.Src)
	binary.BigEndian.PutUint32(ip[16:], 0xffffffff)
	binary.BigEndian.PutUint16(ip[10:], ipChecksum(ip))
	copy(buf[0:6], []byte{0xff, 0xff, 0xff, 0xff, 0xff, 0xff})
	copy(buf[6:12], o.CHAddr)
	buf[12], buf[13] = 0x08, 0x00
	return buf[:14+20+8+n]
}

type Reply struct {
	Type   byte // 2 offer 5 ack 6 nak
	YIAddr uint32
	CIAddr uint32
	XID    []byte
	CHAddr []byte
	BCast  bool
	DstMAC []byte // Ethernet / IP destination of the frame (the model sees only BCast; the oracle checks the unicast case)
	DstIP  uint32
	Opts   map[byte][]byte
	Order  []byte // option codes in wire order
	Raw    []byte // the DHCP message as written (the UDP payload)
	Bad    string // malformed reply description
}

// DecodeReply decodes a frame written by the server; ok=false when it is not a server reply (port 67 -> 68, BOOTREPLY).
func DecodeReply(fr []byte) (*Reply, bool) {
	if len(fr) < 14+20+8+240 || fr[12] != 0x08 || fr[13] != 0x00 || fr[14]>>4 != 4 || fr[23] != 17 {
		return nil, false
	}
	ihl := int(fr[14]&0xf) * 4
	u := fr[14+ihl:]
	if len(u) < 8+240 || binary.BigEndian.Uint16(u[0:]) != 67 {
		return nil, false
	}
	d := u[8:]
	if d[0] != 2 {
		return nil, false
	}
	r := &Reply{YIAddr: binary.BigEndian.Uint32(d[16:]), CIAddr: binary.BigEndian.Uint32(d[12:]), XID: append([]byte{}, d[4:8]...),
		CHAddr: append([]byte{}, d[28:34]...), Opts: map[byte][]byte{}}
	r.BCast = bytes.Equal(fr[0:6], []byte{0xff, 0xff, 0xff, 0xff, 0xff, 0xff}) && binary.BigEndian.Uint32(fr[14+16:]) == 0xffffffff
	r.DstMAC, r.DstIP = append([]byte{}, fr[0:6]...), binary.BigEndian.Uint32(fr[14+16:])
	if ul := int(binary.BigEndian.Uint16(u[4:])); ul >= 8 && ul <= len(u) {
		r.Raw = append([]byte{}, u[8:ul]...)
	} else {
		r.Raw = append([]byte{}, d...)
	}
	if !bytes.Equal(d[236:240], []byte{99, 130, 83, 99}) {
		r.Bad = "bad cookie"
	}
	o := d[240:]
	ended := false
	for len(o) > 0 {
		if o[0] == 255 {
			ended = true
			break
		}
		if o[0] == 0 {
			o = o[1:]
			continue
		}
		if len(o) < 2 || len(o) < 2+int(o[1]) {
			r.Bad = "truncated option"
			break
		}
		if _, dup := r.Opts[o[0]]; dup {
			r.Bad = fmt.Sprintf("duplicate option %d", o[0])
		}
		r.Opts[o[0]] = append([]byte{}, o[2:2+int(o[1])]...)
		r.Order = append(r.Order, o[0])
		o = o[2+int(o[1]):]
	}
	if !ended && r.Bad == "" {
		r.Bad = "no end option"
	}
	if t := r.Opts[53]; len(t) == 1 {
		r.Type = t[0]
	} else {
		r.Bad = "no message type"
	}
	if binary.BigEndian.Uint16(u[4:]) < 8+300 {
		r.Bad = "shorter than 300 bytes"
	}
	return r, true
}

func (r *Reply) typeName() string {
	switch r.Type {
	case 2:
		return "offer"
	case 5:
		return "ack"
	case 6:
		return "nak"
	}
	return fmt.Sprintf("type%d", r.Type)
}

func (r *Reply) String() string {
	codes := make([]int, 0, len(r.Opts))
	for c := range r.Opts {
		codes = append(codes, int(c))
	}
	sort.Ints(codes)
	parts := make([]string, len(codes))
	for i, c := range codes {
		parts[i] = fmt.Sprintf("%d=%s", c, core.Hex(r.Opts[byte(c)]))
	}
	opts := "-"
	if len(parts) > 0 {
		opts = strings.Join(parts, ",")
	}
	return fmt.Sprintf("%s:%d:%d:%s:%s:%d:%s", r.typeName(), r.YIAddr, r.CIAddr, core.Hex(r.XID), core.Hex(r.CHAddr), b2i(r.BCast), opts)
}

// ---------------------------------------------------------------------------------------------
// state dump

func optIP(a netip.Addr, bad *string) string {
	if !a.IsValid() {
		return "~"
	}
	if !a.Is4() {
		*bad = "non-IPv4 address in lease table: " + a.String()
		return "~"
	}
	return strconv.FormatUint(uint64(u32(a)), 10)
}

func joinOr(parts []string, sep string) string {
	if len(parts) == 0 {
		return "-"
	}
	return strings.Join(parts, sep)
}

func subnetStr(v dhcp.VerifSubnet) string {
	c := v.Cfg
	return fmt.Sprintf("%d,%d,%d,%d,%d,%d,%d", u32(c.LAN.Addr()), c.LAN.Bits(), u32(c.DefaultGW), u32(c.DNSServer), u32(c.DHCPServer), u32(c.FirstIP), int64(c.Duration/time.Second))
}

func (w *World) cfgStr(st dhcp.VerifState) string {
	return fmt.Sprintf("%d,%d,%d,%s,%s", st.Mode, u32(w.Cfg.Host), u32(w.Cfg.Router), subnetStr(st.Net1), subnetStr(st.Net2))
}

// Dump is dump for the other runners (harness/c08dhcp: raw payloads; harness/c18: restart simulation).
func (w *World) Dump() (state string, cfg string, bad string) { return w.dump() }

// dump renders the implementation state (lease table, cursors, session oracles) in the model's syntax.
func (w *World) dump() (state string, cfg string, bad string) {
	st := w.H.VerifDump()
	leases := make([]string, 0, len(st.Leases))
	for _, l := range st.Leases {
		if !l.SameKey {
			bad = "table key differs from lease.ClientID"
		}
		if l.Subnet == 0 {
			bad = "lease.subnet is neither net1 nor net2"
		}
		leases = append(leases, fmt.Sprintf("%s:%d:%s:%s:%s:%s:%d:%d", core.Hex(l.CID), l.State, core.Hex(l.MAC), optIP(l.IP, &bad), optIP(l.Offer, &bad),
			core.Hex(l.XID), l.Subnet, canon(l.Expiry)))
	}
	hosts := []string{}
	for _, a := range w.S.VerifHosts() {
		if a.IP.Is4() {
			hosts = append(hosts, fmt.Sprintf("%d=%s", u32(a.IP), core.Hex(a.MAC)))
		}
	}
	capt := []string{}
	for _, m := range w.S.VerifCaptured() {
		capt = append(capt, core.Hex(m))
	}
	cur := func(a netip.Addr) string {
		if !a.Is4() {
			return "~"
		}
		return strconv.FormatUint(uint64(u32(a)), 10)
	}
	state = fmt.Sprintf("%s,%s|%s|%s|%s", cur(st.Net1.NextIP), cur(st.Net2.NextIP), joinOr(leases, ";"), joinOr(hosts, ";"), joinOr(capt, ";"))
	return state, w.cfgStr(st), bad
}

// ---------------------------------------------------------------------------------------------
// running one op on the real code

type Step struct {
	Op       *Op
	Pre      string
	Post     string
	ModelOp  string
	Replies  []*Reply
	Captured bool      // IsCaptured(chaddr) when the message was processed
	Tracked  []byte    // MAC the session tracked for the reply address when the message was processed (nil: none)
	Err      string    // panic / dump problem
	Skipped  bool      // frame not dispatched (Parse refused it)
	Refused  string    // a message frame Parse did not hand to the DHCP handler (why)
	Others   [][]byte  // frames the server wrote that are not BOOTREPLYs from port 67 (client messages it sends on the side)
	T0, T1   time.Time // wall clock before / after the call
	Expiry   time.Time // DHCPExpiry of the client's lease after the step (zero: no lease)
	LeaseDur time.Duration
	CfgDump  string // configuration dump the step ran under
	hostsPre map[uint32][]byte
}

const nowH = 1000 // canonical hour of every time.Now() inside the server during the run

func (w *World) Apply(o *Op) *Step {
	st := &Step{Op: o}
	var frame packet.Frame
	if isMsg(o.Kind) {
		var err error
		frame, err = w.S.Parse(BuildFrame(w.rx, o))
		if err != nil || frame.PayloadID != packet.PayloadDHCP4 {
			st.Skipped = true
			st.Refused = fmt.Sprintf("Parse: err=%v payload=%d", err, frame.PayloadID)
			return st
		}
	}
	if o.Kind == "restart" {
		// a new process: fresh session state, the handler is constructed from the lease file under configuration o.Cfg
		st.Skipped = true
		res := core.Safely(func() string {
			nw, err := NewWorldCaptured(o.Cfg, w.Mode, w.File, nil, true)
			if err != nil {
				return "error constructing the handler: " + err.Error()
			}
			nw.rx = w.rx
			*w = *nw
			return "ok"
		})
		if res != "ok" {
			st.Err = "restart: " + res
		}
		_, st.CfgDump, _ = w.dump()
		return st
	}
	var bad string
	st.Pre, st.CfgDump, bad = w.dump()
	st.ModelOp = o.modelOp(nowH * hour)
	st.hostsPre = map[uint32][]byte{}
	for _, a := range w.S.VerifHosts() {
		if a.IP.Is4() {
			st.hostsPre[u32(a.IP)] = a.MAC
		}
	}
	w.Conn.Take()
	goroutines := runtime.NumGoroutine()
	st.T0 = time.Now()
	res := core.Safely(func() string {
		switch o.Kind {
		case "discover", "request", "decline", "release":
			st.Captured = w.S.IsCaptured(net.HardwareAddr(o.CHAddr))
			w.H.ProcessPacket(frame)
		case "tick":
			w.H.MinuteTicker(vtime(o.Hours))
		case "age":
			// time passes for this client's lease: in memory and, consistently, in the record the last ACK saved
			// The canonical clock counts whole hours: every time.Now() of the run is hour 1000, and so is tick:1000
			// (the start of the process).  A lease whose expiry falls INTO that hour (acknowledged during this run
			// and aged by exactly its duration: 1 h + 3 h of a 4 h lease) is really before every later time.Now() -
			// expired for DISCOVER / REQUEST, which compare with Before(now) - and after tick:1000, and no single
			// canonical value says both: the model, given expiry = now, keeps the lease.  Ageing is a device of the
			// harness, so such a step ages one further hour and the lease is expired on both clocks.
			d := time.Duration(o.Hours) * time.Hour
			for _, l := range w.H.VerifDump().Leases {
				if bytes.Equal(l.CID, o.CID) && !l.Expiry.IsZero() && canon(l.Expiry.Add(-d)) == nowH*hour {
					d += time.Hour
				}
			}
			w.H.VerifAge(o.CID, d)
			if w.File != "" {
				w.H.VerifAgeFile(o.CID, d)
			}
			st.Skipped = true // not a model op: it only moves the implementation to another pre-state
		case "capture":
			w.S.Capture(net.HardwareAddr(o.MAC))
		case "uncapture":
			w.S.Release(net.HardwareAddr(o.MAC))
		case "host":
			w.S.VerifSetHost(addr(o.IP), net.HardwareAddr(o.MAC))
		case "nohost":
			w.S.VerifDeleteHost(addr(o.IP))
		}
		return "ok"
	})
	if res != "ok" {
		st.Err = "panic in " + o.Kind
	}
	st.T1 = time.Now()
	// the receive loop reuses its buffer: whatever the server kept must not point into it
	for i := range w.rx {
		w.rx[i] = 0xee
	}
	// senders the handler started on the side (forged DECLINE / RELEASE): wait until they are gone so that their
	// frames belong to this step
	if isMsg(o.Kind) {
		for deadline := time.Now().Add(10 * time.Second); runtime.NumGoroutine() > goroutines && time.Now().Before(deadline); {
			runtime.Gosched()
			time.Sleep(10 * time.Microsecond)
		}
	}
	for _, fr := range w.Conn.Take() {
		if r, ok := DecodeReply(fr); ok {
			st.Replies = append(st.Replies, r)
		} else {
			st.Others = append(st.Others, fr)
		}
	}
	if isMsg(o.Kind) {
		for _, l := range w.H.VerifDump().Leases {
			if bytes.Equal(l.CID, o.clientID()) {
				st.Expiry = l.Expiry
				if l.Subnet == 2 {
					st.LeaseDur = w.H.VerifDump().Net2.Cfg.Duration
				} else {
					st.LeaseDur = w.H.VerifDump().Net1.Cfg.Duration
				}
			}
		}
	}
	var bad2 string
	st.Post, _, bad2 = w.dump()
	if bad == "" {
		bad = bad2
	}
	if bad != "" && st.Err == "" {
		st.Err = bad
	}
	return st
}

func (st *Step) repliesStr() string {
	parts := make([]string, len(st.Replies))
	for i, r := range st.Replies {
		parts[i] = r.String()
	}
	return joinOr(parts, ";")
}

func (st *Step) group() string {
	return st.Pre + " " + st.ModelOp + " " + st.Post + " " + st.repliesStr()
}

// ---------------------------------------------------------------------------------------------
// property oracles (independent ledger over the observed replies)

type binding struct {
	cid    string
	mac    []byte
	expiry int64
}

type offerRec struct {
	ip  uint32
	xid string
}

type Ledger struct {
	cfg  *NetCfg
	mode int
	// C11 view: address -> client whose acknowledgement is still in force.  Released eagerly: any later
	// message of that client other than a re-acknowledged REQUEST ends it (DISCOVER/DECLINE/RELEASE, a
	// NAKed or ignored REQUEST), as does the lease time running out.
	acked   map[uint32]binding
	leaseOf map[string]uint32 // inverse of acked
	// C12 view: what the client may ask the server to confirm.  Kept conservatively: an offer until it is
	// acknowledged or replaced, a lease until a DECLINE sent to us, another ACK or expiry (a NAK to a mismatching request does not end the server's binding).
	offered     map[string]offerRec
	held        map[string]binding // client id -> (address in cid field unused) ; expiry
	heldIP      map[string]uint32
	ever        map[string]bool // every (address, client id, mac) ever acknowledged
	claimedEver map[string]bool // every (client id, address) ever offered or acknowledged
	restarted   bool            // the server was restarted from its lease file under the same configuration
}

func NewLedger(c *NetCfg, mode int) *Ledger {
	return &Ledger{cfg: c, mode: mode, acked: map[uint32]binding{}, offered: map[string]offerRec{}, leaseOf: map[string]uint32{},
		held: map[string]binding{}, heldIP: map[string]uint32{}, ever: map[string]bool{}, claimedEver: map[string]bool{}}
}

func (l *Ledger) key() string {
	parts := []string{}
	for ip, b := range l.acked {
		parts = append(parts, fmt.Sprintf("a%d=%x@%d", ip, b.cid, b.expiry))
	}
	for c, o := range l.offered {
		parts = append(parts, fmt.Sprintf("o%x=%d/%x", c, o.ip, o.xid))
	}
	for c, b := range l.held {
		parts = append(parts, fmt.Sprintf("h%x=%d@%d", c, l.heldIP[c], b.expiry))
	}
	sort.Strings(parts)
	return strings.Join(parts, ",")
}

type Finding struct {
	Prop  string // C11 | C12
	What  string
	Known string
}

func (l *Ledger) subnetOf(captured bool) (lan netip.Prefix, gw, dns netip.Addr) {
	if captured {
		return l.cfg.Netfilter.Masked(), l.cfg.Netfilter.Addr(), netip.MustParseAddr("1.1.1.3")
	}
	return l.cfg.Home, l.cfg.Router, l.cfg.DNS
}

func bcastOf(p netip.Prefix) uint32 {
	return u32(p.Masked().Addr()) | (uint32(0xffffffff) >> uint(p.Bits()))
}

// sideFrames judges the frames the server wrote besides its reply (audit: they used to be dropped unseen).  The only
// client-side messages the DHCP server sends are (a) the DISCOVER storm against the home router's pool (chaddr
// ff:ee:dd:cc:bb:xx, at most once per 20 s of wall time) and (b) one forged DECLINE per DISCOVER / REQUEST in the attacking
// modes, sent to the home router in the name of THIS client: chaddr, xid and client identifier of the triggering message,
// requested address = the address the message names, server identifier = the home router.
func (l *Ledger) sideFrames(st *Step, add func(prop, known, format string, a ...any)) {
	o := st.Op
	declines := 0
	for _, fr := range st.Others {
		Stats["side-frame"]++
		bad := func(format string, a ...any) {
			add("C12", "", "frame written besides the reply to %s: "+format+" [%s]", append(append([]any{o.Kind}, a...), core.Hex(fr[:min(len(fr), 60)]))...)
		}
		if len(fr) < 14+20+8+240 || fr[12] != 0x08 || fr[13] != 0x00 || fr[14] != 0x45 || fr[23] != 17 ||
			binary.BigEndian.Uint16(fr[34:]) != 68 || binary.BigEndian.Uint16(fr[36:]) != 67 || fr[42] != 1 {
			bad("not a BOOTREQUEST from port 68 to port 67")
			continue
		}
		d := fr[42:]
		opts := map[byte][]byte{}
		for p := d[240:]; len(p) >= 2 && p[0] != 255; {
			if p[0] == 0 {
				p = p[1:]
				continue
			}
			if len(p) < 2+int(p[1]) {
				break
			}
			opts[p[0]] = p[2 : 2+int(p[1])]
			p = p[2+int(p[1]):]
		}
		typ := byte(0)
		if t := opts[53]; len(t) == 1 {
			typ = t[0]
		}
		chaddr, xid := d[28:34], d[4:8]
		switch {
		case typ == 1 && bytes.Equal(chaddr[:5], []byte{0xff, 0xee, 0xdd, 0xcc, 0xbb}):
			Stats["side-frame:storm"]++ // (a)
			if o.Kind != "discover" {
				bad("DISCOVER storm although the message is no DISCOVER")
			}
		case typ == 4:
			Stats["side-frame:decline"]++
			declines++
			attacking := l.mode == 2 || (l.mode == 3 && st.Captured)
			named := o.CIAddr
			if len(o.Req) == 4 && binary.BigEndian.Uint32(o.Req) != 0 {
				named = binary.BigEndian.Uint32(o.Req)
			}
			switch {
			case !attacking:
				bad("forged DECLINE in mode %d for a client with captured=%v", l.mode, st.Captured)
			case o.Kind != "discover" && o.Kind != "request":
				bad("forged DECLINE")
			case !bytes.Equal(chaddr, o.CHAddr) || !bytes.Equal(xid, o.XID):
				bad("forged DECLINE for chaddr %x xid %x, the message has chaddr %x xid %x", chaddr, xid, o.CHAddr, o.XID)
			case !bytes.Equal(opts[61], o.clientID()):
				bad("forged DECLINE with client identifier %x, the client is %x", opts[61], o.clientID())
			case len(opts[50]) != 4 || binary.BigEndian.Uint32(opts[50]) != named:
				bad("forged DECLINE of %x, the message names %s", opts[50], addr(named))
			case !bytes.Equal(opts[54], l.cfg.Router.AsSlice()) || !bytes.Equal(fr[0:6], sess.RouterMAC) || !bytes.Equal(fr[6:12], sess.HostMAC):
				bad("forged DECLINE not addressed to the home router from the host NIC (server id %x)", opts[54])
			}
		default:
			bad("unexpected client message type %d chaddr %x", typ, chaddr)
		}
	}
	if declines > 1 {
		add("C12", "", "%d forged DECLINEs for one %s", declines, o.Kind)
	}
}

// Observe checks one step against C11 and C12 and updates the ledger.
func (l *Ledger) Observe(st *Step) (out []Finding) {
	o := st.Op
	add := func(prop, known, format string, a ...any) {
		out = append(out, Finding{Prop: prop, What: fmt.Sprintf(format, a...), Known: known})
	}
	switch o.Kind {
	case "restart":
		if st.Err != "" {
			add("C11", "", "%s", st.Err)
			add("C12", "", "%s", st.Err)
		}
		if &Cfgs[o.Cfg] != l.cfg {
			// the operator changed the configuration: the server starts a new regime (it resets its table);
			// from here on every reply is judged against the NEW configuration
			l.cfg = &Cfgs[o.Cfg]
			l.acked, l.leaseOf, l.offered = map[uint32]binding{}, map[string]uint32{}, map[string]offerRec{}
			l.held, l.heldIP, l.ever, l.claimedEver = map[string]binding{}, map[string]uint32{}, map[string]bool{}, map[string]bool{}
		} else {
			l.restarted = true // the lease file may resurrect a binding the client gave up since the last save (DECLINE is not persisted)
		}
		return
	case "tick":
		for ip, b := range l.acked {
			if b.expiry < o.Hours*hour {
				delete(l.acked, ip)
				delete(l.leaseOf, b.cid)
			}
		}
		for c, b := range l.held {
			if b.expiry < o.Hours*hour {
				delete(l.held, c)
				delete(l.heldIP, c)
			}
		}
		return
	case "age":
		cid := string(o.CID)
		if ip, ok := l.leaseOf[cid]; ok {
			b := l.acked[ip]
			b.expiry -= o.Hours * hour
			l.acked[ip] = b
		}
		if b, ok := l.held[cid]; ok {
			b.expiry -= o.Hours * hour
			l.held[cid] = b
		}
		return
	}
	if isMsg(o.Kind) && st.Skipped {
		// every generated message is a well-formed Ethernet/IPv4/UDP/DHCP frame: the session must hand it to the handler
		Stats["msg-not-dispatched"]++
		add("C11", "", "%s frame not dispatched to the DHCP handler (%s)", o.Kind, st.Refused)
		add("C12", "", "%s frame not dispatched to the DHCP handler (%s)", o.Kind, st.Refused)
		return
	}
	if !isMsg(o.Kind) || st.Skipped {
		return
	}
	Stats["op:"+o.Kind]++
	l.sideFrames(st, add)
	if len(st.Replies) == 0 {
		Stats["reply:none"]++
	}
	for _, r := range st.Replies {
		Stats["reply:"+r.typeName()]++
	}
	if st.Captured {
		Stats["captured-client-msg"]++
	}
	if st.Err != "" {
		add("C11", "", "%s", st.Err)
		add("C12", "", "%s", st.Err)
	}
	cid := string(o.clientID())
	lan, gw, dns := l.subnetOf(st.Captured)
	if len(st.Replies) > 1 {
		add("C12", "", "%d replies to one %s", len(st.Replies), o.Kind)
	}
	var ack *Reply
	for _, r := range st.Replies {
		if r.Bad != "" {
			add("C12", "", "malformed reply: %s", r.Bad)
		}
		if (o.Kind == "decline" || o.Kind == "release") || (o.Kind == "discover" && r.Type != 2) || (o.Kind == "request" && r.Type != 5 && r.Type != 6) {
			add("C12", "", "%s answered with %s", o.Kind, r.typeName())
		}
		if !bytes.Equal(r.XID, o.XID) || !bytes.Equal(r.CHAddr, o.CHAddr) {
			add("C12", "", "%s does not echo xid/chaddr: xid=%x chaddr=%x", r.typeName(), r.XID, r.CHAddr)
		}
		// destination: broadcast, or exactly the sender of the request (the model sees one bit)
		if !r.BCast && (!bytes.Equal(r.DstMAC, o.CHAddr) || r.DstIP != o.Src) {
			add("C12", "", "%s sent to %x / %s, neither broadcast nor the sender %x / %s", r.typeName(), r.DstMAC, addr(r.DstIP), o.CHAddr, addr(o.Src))
		}
		if r.Type != 2 && r.Type != 5 {
			continue
		}
		ip := r.YIAddr
		a := addr(ip)
		// ---- C11: reserved addresses
		claimed := false // the address was already offered/acknowledged to this client before this message
		if of, ok := l.offered[cid]; ok && of.ip == ip {
			claimed = true
		}
		if cur, ok := l.heldIP[cid]; ok && cur == ip {
			claimed = true
		}
		if l.claimedEver[fmt.Sprintf("%x/%d", cid, ip)] { // the server may still hold what the trackers above dropped at a NAK
			claimed = true
		}
		switch {
		case a == l.cfg.Host:
			add("C11", "", "%s of the host's own address %s", r.typeName(), a)
		case a == l.cfg.Router:
			add("C11", "", "%s of the router's address %s", r.typeName(), a)
		case !lan.Contains(a):
			add("C11", "", "%s of %s outside the client's subnet %s (captured=%v)", r.typeName(), a, lan, st.Captured)
		case ip == u32(lan.Addr()) || ip == bcastOf(lan):
			add("C11", "", "%s of the network/broadcast address %s of %s", r.typeName(), a, lan)
		}
		// (also for re-offers and confirmations of an address the client already held: the defect
		// confirm-after-session-conflict is fixed, KNOWN_FINDINGS.txt)
		if m, ok := st.hostsPre[ip]; ok && !bytes.Equal(m, o.CHAddr) {
			add("C11", "", "%s of %s to %x while the session tracks it for %x (claimed before=%v)", r.typeName(), a, o.CHAddr, m, claimed)
		}
		// ---- C11: uniqueness
		if b, ok := l.acked[ip]; ok && b.cid != cid {
			add("C11", "", "%s of %s to client %x while acknowledged to client %x", r.typeName(), a, cid, b.cid)
		}
		// ---- C12: conformance
		if !lan.Contains(a) {
			add("C12", "", "%s yiaddr %s not in the subnet %s selected by captured=%v", r.typeName(), a, lan, st.Captured)
		}
		want := map[byte][]byte{3: gw.AsSlice(), 6: dns.AsSlice(), 1: net.CIDRMask(lan.Bits(), 32), 54: l.cfg.Host.AsSlice(), 51: {0, 0, 0x38, 0x40}}
		for _, code := range []byte{1, 3, 6, 51, 54} {
			if !bytes.Equal(r.Opts[code], want[code]) {
				add("C12", "", "%s option %d = %x, want %x (captured=%v)", r.typeName(), code, r.Opts[code], want[code], st.Captured)
			}
		}
		if bytes.IndexByte(r.Order, 1) > bytes.IndexByte(r.Order, 3) {
			add("C12", "", "%s: router option before subnet mask (order %v)", r.typeName(), r.Order)
		}
		if r.Type == 5 {
			ack = r
			// the lease the server keeps runs for the announced time from the moment of the ACK (instants, not the
			// canonical clock that floors to the hour)
			if !st.T0.IsZero() && (st.Expiry.Before(st.T0.Add(st.LeaseDur)) || st.Expiry.After(st.T1.Add(st.LeaseDur))) {
				add("C12", "", "ACK at %s..%s with lease time %s, but the server's lease runs until %s", st.T0.Format("15:04:05.000000"), st.T1.Format("15:04:05.000000"), st.LeaseDur, st.Expiry.Format("15:04:05.000000"))
			}
			if v := r.Opts[51]; len(v) == 4 && time.Duration(binary.BigEndian.Uint32(v))*time.Second != st.LeaseDur {
				add("C12", "", "ACK announces lease time %d s, the subnet's is %s", binary.BigEndian.Uint32(v), st.LeaseDur)
			}
			confirmsOffer := false
			if of, ok := l.offered[cid]; ok && of.ip == ip && of.xid == string(o.XID) {
				confirmsOffer = true
			}
			cur, hasLease := l.heldIP[cid]
			// a lease whose time ran out stays "current" until a minute tick frees it (checks.json assumption; only the
			// renewing branch of the server looks at the clock itself)
			if l.restarted && l.ever[fmt.Sprintf("%d/%x/%x", ip, cid, o.CHAddr)] {
				hasLease, cur = true, ip
			}
			if !confirmsOffer && !(hasLease && cur == ip) {
				add("C12", "", "ACK of %s to %x confirms neither the offer of this transaction nor the current lease", a, cid)
			}
			// "mismatching lease ... never with ACK": the address a REQUEST names is its requested-address option
			// (selecting, init-reboot) or, without a usable one, ciaddr (renewing, rebinding; RFC 2131 4.3.2) - whatever
			// the IP source of the datagram says.  An ACK for another address answers a request that named a
			// different address than the client's lease.
			named := o.CIAddr
			if len(o.Req) == 4 && binary.BigEndian.Uint32(o.Req) != 0 {
				named = binary.BigEndian.Uint32(o.Req)
			}
			if named != ip {
				add("C12", "", "ACK of %s to a REQUEST that names %s (requested-address option %x, ciaddr %s, IP source %s): mismatching lease acknowledged",
					a, addr(named), o.Req, addr(o.CIAddr), addr(o.Src))
			}
			if srv := o.Srv; len(srv) == 4 && !bytes.Equal(srv, []byte{0, 0, 0, 0}) && !bytes.Equal(srv, l.cfg.Host.AsSlice()) {
				add("C12", "", "ACK although the client selected server %v", net.IP(srv))
			}
		}
	}
	// ---- ledger update.  An acknowledgement stays in force until the client gives the address up or is told to:
	// DISCOVER (the client is back in INIT), RELEASE, a DECLINE addressed to us, a REQUEST that selects another server
	// (it takes that server's offer), a REQUEST answered with NAK, or the end of the lease time (tick).  A REQUEST or DECLINE
	// the server ignores does NOT end it (audit F3: it used to end on any message of the holder).
	ends := false
	switch o.Kind {
	case "discover", "release":
		ends = true
	case "decline":
		ends = bytes.Equal(o.Srv, l.cfg.Host.AsSlice())
	case "request":
		if len(o.Srv) == 4 && !bytes.Equal(o.Srv, []byte{0, 0, 0, 0}) && !bytes.Equal(o.Srv, l.cfg.Host.AsSlice()) {
			ends = true
		}
		for _, r := range st.Replies {
			if r.Type == 6 || r.Type == 5 {
				ends = true // NAK; an ACK replaces the binding below
			}
		}
	}
	if ip, ok := l.leaseOf[cid]; ok && ends {
		delete(l.acked, ip)
		delete(l.leaseOf, cid)
	}
	for _, r := range st.Replies {
		if r.Type == 2 || r.Type == 5 {
			l.claimedEver[fmt.Sprintf("%x/%d", cid, r.YIAddr)] = true
		}
		if r.Type == 2 {
			l.offered[cid] = offerRec{ip: r.YIAddr, xid: string(o.XID)}
		}
	}
	if o.Kind == "decline" && bytes.Equal(o.Srv, l.cfg.Host.AsSlice()) && len(o.Req) == 4 && binary.BigEndian.Uint32(o.Req) == l.heldIP[cid] {
		delete(l.held, cid)
		delete(l.heldIP, cid)
	}
	if ack != nil {
		lease := int64(0)
		if v := ack.Opts[51]; len(v) == 4 {
			lease = int64(binary.BigEndian.Uint32(v))
		}
		b := binding{cid: cid, mac: o.CHAddr, expiry: nowH*hour + lease}
		l.acked[ack.YIAddr] = b
		l.leaseOf[cid] = ack.YIAddr
		l.held[cid], l.heldIP[cid] = b, ack.YIAddr
		l.ever[fmt.Sprintf("%d/%x/%x", ack.YIAddr, cid, o.CHAddr)] = true
		delete(l.offered, cid)
	}
	return out
}

// ---------------------------------------------------------------------------------------------
// histories

type Run struct {
	Steps    []*Step
	Findings []Finding
	CfgDump  string
	Key      string // state key after the history (implementation state + oracles + ledger)
}

func hasRestart(ops []*Op) bool {
	for _, o := range ops {
		if o.Kind == "restart" {
			return true
		}
	}
	return false
}

// newHistoryWorld: histories that restart the server run over a lease file in a private temporary directory.
func newHistoryWorld(cfgIdx, mode int, withFile bool) (w *World, cleanup func(), err error) {
	cleanup = func() {}
	file := ""
	if withFile {
		dir, derr := os.MkdirTemp("", "verif-c11-")
		if derr != nil {
			return nil, cleanup, derr
		}
		cleanup = func() { os.RemoveAll(dir) }
		file = dir + "/leases.yaml"
	}
	w, err = NewWorld(cfgIdx, mode, file)
	return w, cleanup, err
}

func RunHistory(cfgIdx, mode int, ops []*Op) *Run {
	w, cleanup, err := newHistoryWorld(cfgIdx, mode, hasRestart(ops))
	defer cleanup()
	if err != nil {
		return &Run{Findings: []Finding{{Prop: "C11", What: "cannot construct handler: " + err.Error()}}}
	}
	run, _ := RunOn(w, ops)
	return run
}

// runner applies ops one at a time, feeding the oracles
type runner struct {
	w   *World
	led *Ledger
	run *Run
}

func newRunner(w *World) *runner {
	r := &runner{w: w, led: NewLedger(w.Cfg, w.Mode), run: &Run{}}
	_, r.run.CfgDump, _ = w.dump()
	return r
}

func (r *runner) step(o *Op) *Step {
	st := r.w.Apply(o)
	r.run.Steps = append(r.run.Steps, st)
	r.run.Findings = append(r.run.Findings, r.led.Observe(st)...)
	return st
}

func (r *runner) finish() *Run {
	post, _, _ := r.w.dump()
	r.run.Key = post + "#" + r.led.key()
	return r.run
}

// RunOn runs ops on an existing world and returns the run and the ledger the oracles built.
func RunOn(w *World, ops []*Op) (*Run, *Ledger) {
	return RunOnEach(w, ops, nil)
}

// RunOnEach is RunOn with a callback after every step (the world is in the step's post-state).
func RunOnEach(w *World, ops []*Op, each func(st *Step)) (*Run, *Ledger) {
	r := newRunner(w)
	for _, o := range ops {
		st := r.step(o)
		if each != nil {
			each(st)
		}
	}
	return r.finish(), r.led
}

// Acked returns the acknowledgements in force (address -> client id, mac, expiry on the canonical clock).
func (l *Ledger) Acked() map[uint32]Binding {
	out := map[uint32]Binding{}
	for ip, b := range l.acked {
		out[ip] = Binding{CID: []byte(b.cid), MAC: b.mac, Expiry: b.expiry}
	}
	return out
}

type Binding struct {
	CID    []byte
	MAC    []byte
	Expiry int64
}

// EverAcked reports whether the history ever acknowledged ip to (cid, mac).
func (l *Ledger) EverAcked(ip uint32, cid, mac []byte) bool {
	return l.ever[fmt.Sprintf("%d/%x/%x", ip, cid, mac)]
}

const NowH = nowH
const Hour = hour

func Canon(t time.Time) int64                            { initOnce(); return canon(t) }
func U32(a netip.Addr) uint32                            { return u32(a) }
func Addr(v uint32) netip.Addr                           { return addr(v) }
func RandomHistory(c *core.Ctx, cfgIdx int, n int) []*Op { return randomHistory(c, cfgIdx, n) }
func Mac(i int) []byte                                   { return mac(i) }

func histLine(cfgIdx, mode int, ops []*Op) string {
	parts := make([]string, len(ops))
	for i, o := range ops {
		parts[i] = o.String()
	}
	return fmt.Sprintf("dhcp.hist %d:%d %s", cfgIdx, mode, joinOr(parts, ";"))
}

func parseHist(line string) (cfgIdx, mode int, ops []*Op, ok bool) {
	f := strings.Fields(line)
	if len(f) < 3 || f[0] != "dhcp.hist" {
		return
	}
	cm := strings.Split(f[1], ":")
	if len(cm) != 2 {
		return
	}
	cfgIdx, _ = strconv.Atoi(cm[0])
	mode, _ = strconv.Atoi(cm[1])
	if cfgIdx < 0 || cfgIdx >= len(Cfgs) || mode < 1 || mode > 3 {
		return
	}
	if f[2] != "-" {
		for _, s := range strings.Split(f[2], ";") {
			o, k := ParseOp(s)
			if !k {
				return
			}
			ops = append(ops, o)
		}
	}
	return cfgIdx, mode, ops, true
}

var seenSteps = map[string]struct{}{}

// Stats counts what the explored histories exercised (reported in the evidence file).
var Stats = map[string]int{}

var (
	kindRe    = regexp.MustCompile(`[0-9a-f.:/\[\] ]{2,}`)
	kindCount = map[string]int{}
)

// mkCase turns a history run into one case; onlyNew drops the step groups already sent to the model.
func mkCase(c *core.Ctx, cfgIdx, mode int, ops []*Op, run *Run, onlyNew bool, class string) *core.Case {
	var sb strings.Builder
	sb.WriteString(histLine(cfgIdx, mode, ops))
	sb.WriteString(" @ ")
	sb.WriteString(run.CfgDump)
	n := 0
	cur := run.CfgDump
	for _, st := range run.Steps {
		if st.Skipped || st.Pre == "" {
			continue
		}
		g := st.group()
		if st.CfgDump != "" && st.CfgDump != cur {
			g = "cfg=" + st.CfgDump + " " + g // the server was restarted under another configuration
		}
		if onlyNew {
			if _, dup := seenSteps[g]; dup {
				continue
			}
			seenSteps[g] = struct{}{}
		}
		if st.CfgDump != "" {
			cur = st.CfgDump
		}
		sb.WriteString(" ")
		sb.WriteString(g)
		n++
	}
	prop := c.Prop
	findings := run.Findings
	return &core.Case{Line: sb.String(), Impl: "accept", Class: class, Trivial: n == 0,
		Oracle: func() (string, string) {
			// unknown findings first; a known one is reported only when nothing else fails
			var known *Finding
			for i := range findings {
				f := &findings[i]
				if f.Prop != prop {
					continue
				}
				if f.Known != "" && c.Known[f.Known] {
					if known == nil {
						known = f
					}
					continue
				}
				// at most 3 examples per failure shape, so that one defect does not hide the others
				k := kindRe.ReplaceAllString(f.What, "#")
				if kindCount[k] >= 3 {
					continue
				}
				kindCount[k]++
				return f.What, ""
			}
			if known != nil {
				return known.What, known.Known
			}
			return "", ""
		}}
}

// ---------------------------------------------------------------------------------------------
// Config.New: the two subnets the constructor derives from the NIC information and the configuration
//
//	dhcp.new <mode>,<host>,<router>,<homeLan>,<homeBits>,<nfAddr>,<nfBits>,<dns|~> @ <cfgdump | err>
//
// The model (Model.Dhcp4Srv.mkCfg / NewCfg.accepted) must produce the same subnets, or refuse the same configurations.
// The oracle states C12's concrete values independently: home subnet = home LAN, REAL router, configured DNS (router
// when none); netfilter subnet = netfilter prefix, OUR netfilter address as gateway, 1.1.1.3; we are the server of both.

func evalNew(c *core.Ctx, spec string) *core.Case {
	f := strings.Split(spec, ",")
	if len(f) != 8 {
		return nil
	}
	num := func(s string) uint32 { v, _ := strconv.ParseUint(s, 10, 32); return uint32(v) }
	mode := int(num(f[0]))
	hb, nb := int(num(f[4])), int(num(f[6]))
	if mode < 1 || mode > 3 || hb > 32 || nb > 32 {
		return nil
	}
	initOnce()
	home := netip.PrefixFrom(addr(num(f[3])), hb)
	nf := netip.PrefixFrom(addr(num(f[5])), nb)
	nic := &packet.NICInfo{
		HostAddr4:   packet.Addr{MAC: sess.HostMAC, IP: addr(num(f[1]))},
		RouterAddr4: packet.Addr{MAC: sess.RouterMAC, IP: addr(num(f[2]))},
		HomeLAN4:    home, HostLLA: sess.HostLLA, RouterLLA: sess.RouterLLA,
	}
	s, _ := sess.New(nic) // timers already stopped; nothing runs in it
	cfg := dhcp.Config{Mode: dhcp.Mode(mode), NetfilterIP: nf}
	dnsWant := addr(num(f[2]))
	if f[7] != "~" {
		cfg.DNSServer = addr(num(f[7]))
		dnsWant = cfg.DNSServer
	}
	dump, what := "err", ""
	res := core.Safely(func() string {
		h, err := cfg.New(s)
		if err != nil {
			return "ok"
		}
		st := h.VerifDump()
		dump = fmt.Sprintf("%d,%d,%d,%s,%s", st.Mode, num(f[1]), num(f[2]), subnetStr(st.Net1), subnetStr(st.Net2))
		n1, n2 := st.Net1.Cfg, st.Net2.Cfg
		switch {
		case n1.LAN != home.Masked() || n1.DefaultGW != nic.RouterAddr4.IP || n1.DNSServer != dnsWant || n1.DHCPServer != nic.HostAddr4.IP:
			what = fmt.Sprintf("home subnet after New: %+v, want the home LAN %s with the real router %s, DNS %s, server %s", n1, home, nic.RouterAddr4.IP, dnsWant, nic.HostAddr4.IP)
		case n2.LAN != nf.Masked() || n2.DefaultGW != nf.Addr() || n2.DNSServer != netip.MustParseAddr("1.1.1.3") || n2.DHCPServer != nic.HostAddr4.IP:
			what = fmt.Sprintf("netfilter subnet after New: %+v, want %s with our address %s as gateway, the family DNS 1.1.1.3, server %s", n2, nf.Masked(), nf.Addr(), nic.HostAddr4.IP)
		case !home.Masked().Contains(nf.Masked().Addr()) || nf.Bits() < home.Bits():
			what = fmt.Sprintf("New accepts the netfilter prefix %s that is not inside the home LAN %s", nf, home)
		case n1.Duration != 4*time.Hour || n2.Duration != 4*time.Hour:
			what = "lease time after New is not four hours"
		}
		return "ok"
	})
	if res != "ok" {
		what = "Config.New panicked"
	}
	return &core.Case{Line: "dhcp.new " + spec + " " + dump, Impl: "accept", Class: "new",
		Oracle: func() (string, string) { return what, "" }}
}

func genNew(c *core.Ctx) {
	emit := func(mode int, host, router netip.Addr, home, nf netip.Prefix, dns string) {
		spec := fmt.Sprintf("%d,%d,%d,%d,%d,%d,%d,%s", mode, u32(host), u32(router), u32(home.Addr()), home.Bits(), u32(nf.Addr()), nf.Bits(), dns)
		if cs := evalNew(c, spec); cs != nil {
			c.Add(*cs)
		}
	}
	for i := range Cfgs {
		k := &Cfgs[i]
		for mode := 1; mode <= 3; mode++ {
			emit(mode, k.Host, k.Router, k.Home, k.Netfilter, strconv.FormatUint(uint64(u32(k.DNS)), 10))
		}
		emit(2, k.Host, k.Router, k.Home, k.Netfilter, "~") // no DNS server configured: the router
		// netfilter prefixes New must refuse: address outside the home LAN; prefix shorter than the home prefix
		emit(1, k.Host, k.Router, k.Home, netip.PrefixFrom(netip.MustParseAddr("172.31.9.1"), 29), "~")
		if k.Home.Bits() > 8 {
			emit(1, k.Host, k.Router, k.Home, netip.PrefixFrom(k.Netfilter.Addr(), k.Home.Bits()-1), "~")
		}
		// unmasked home prefix, netfilter prefix as long as the home prefix, /30
		emit(3, k.Host, k.Router, netip.PrefixFrom(k.Host, k.Home.Bits()), netip.PrefixFrom(k.Host, k.Home.Bits()), "~")
		emit(1, k.Host, k.Router, k.Home, netip.PrefixFrom(k.Host, 30), "~")
	}
}

func Eval(c *core.Ctx, line string) *core.Case {
	if f := strings.Fields(line); len(f) >= 2 && f[0] == "dhcp.new" {
		return evalNew(c, f[1])
	}
	if f := strings.Fields(line); len(f) == 5 && f[0] == "dhcp.conc" {
		// concurrent stage (conc.go): decided for C12 only, no model counterpart
		if c.Prop != "C12" {
			return nil
		}
		var cfgIdx, mode, seed, rounds int
		fmt.Sscan(f[1], &cfgIdx)
		fmt.Sscan(f[2], &mode)
		fmt.Sscan(f[3], &seed)
		fmt.Sscan(f[4], &rounds)
		if cfgIdx < 0 || cfgIdx >= NumBase || mode < 1 || mode > 3 {
			return nil
		}
		bad := concRound(cfgIdx, mode, int64(seed), rounds)
		return &core.Case{Line: "dhcp.new -", Impl: "-", Trivial: true, Class: "concurrent", Cmp: func(a, b string) bool { return true },
			Oracle: func() (string, string) {
				if bad == "" {
					return "", ""
				}
				return "C12: " + bad + "   [" + line + "]", ""
			}}
	}
	cfgIdx, mode, ops, ok := parseHist(line)
	if !ok {
		return nil
	}
	initOnce()
	run := RunHistory(cfgIdx, mode, ops)
	return mkCase(c, cfgIdx, mode, ops, run, false, "corpus")
}

// ---------------------------------------------------------------------------------------------
// generators

func mac(i int) []byte    { return []byte{0x00, 0x02, 0x03, 0x04, 0x05, byte(0x10 + i)} }
func xid(i, k int) []byte { return []byte{0xa0 + byte(i), 0, 0, byte(k)} }

// client-side view used to build follow-up messages (derived from the replies the client saw)
type clientView struct {
	offer uint32
	lease uint32
}

func viewOf(run *Run, n int) []clientView {
	v := make([]clientView, n)
	for _, st := range run.Steps {
		for _, r := range st.Replies {
			for i := 0; i < n; i++ {
				if bytes.Equal(r.CHAddr, mac(i)) {
					if r.Type == 2 {
						v[i].offer = r.YIAddr
					}
					if r.Type == 5 {
						v[i].lease = r.YIAddr
					}
				}
			}
		}
	}
	return v
}

func ip4(v uint32) []byte { return addr(v).AsSlice() }

// alphabet of the bounded-exhaustive exploration for a configuration, given what the clients have seen
func alphabet(cfg *NetCfg, view []clientView, full []bool) []*Op {
	target := u32(cfg.Netfilter.Masked().Addr()) + 2 // an address every client names as requested address
	host := ip4(u32(cfg.Host))
	var ops []*Op
	for i := range view {
		m := mac(i)
		pick := func(v ...uint32) uint32 {
			for _, x := range v {
				if x != 0 {
					return x
				}
			}
			return target
		}
		msg := func(kind string) *Op { return &Op{Kind: kind, CHAddr: m, XID: xid(i, 1)} }
		d := msg("discover")
		dr := msg("discover")
		dr.Req = ip4(target)
		rs := msg("request")
		rs.Srv, rs.Req = host, ip4(pick(view[i].offer, view[i].lease))
		ops = append(ops, d, dr, rs)
		if !full[i] {
			continue
		}
		rw := msg("request")
		rw.Srv, rw.Req = ip4(u32(cfg.Router)), ip4(pick(view[i].offer, view[i].lease))
		rn := msg("request")
		rn.CIAddr = pick(view[i].lease, view[i].offer)
		rn.Src = rn.CIAddr
		rb := msg("request")
		rb.Req = ip4(pick(view[i].lease, view[i].offer))
		if i == 0 { // a renewal sent from the leased address that names the next address
			rx := msg("request")
			rx.Src = pick(view[i].lease, view[i].offer)
			rx.CIAddr = rx.Src + 1
			ops = append(ops, rx)
		}
		dc := msg("decline")
		dc.Srv, dc.Req = host, ip4(pick(view[i].lease, view[i].offer))
		rl := msg("release")
		rl.Srv, rl.CIAddr = host, pick(view[i].lease, view[i].offer)
		cp := &Op{Kind: "capture", MAC: m}
		un := &Op{Kind: "uncapture", MAC: m}
		ops = append(ops, rw, rn, rb, dc, rl, cp, un)
		// the session forgets the client's address (purge): only the lease table protects it then
		if a := pick(view[i].lease, view[i].offer); a != target || i == 0 {
			ops = append(ops, &Op{Kind: "nohost", IP: a})
		}
		if i == 0 { // the lease time of client 0 runs out on the clock (no minute tick yet)
			ops = append(ops, &Op{Kind: "age", CID: m, Hours: 9})
		}
	}
	ops = append(ops, &Op{Kind: "tick", Hours: 1000}, &Op{Kind: "tick", Hours: 1005})
	return ops
}

type node struct {
	ops []*Op
	run *Run
}

// bfs explores all histories over the alphabet up to depth, pruning histories that reach a state
// (implementation + oracles + ledger + client views) already reached by a shorter or earlier one.
func bfs(c *core.Ctx, cfgIdx, mode, depth int, full []bool, captureFirst bool) {
	cfg := &Cfgs[cfgIdx]
	var prefix []*Op
	if captureFirst {
		for i := range full {
			prefix = append(prefix, &Op{Kind: "capture", MAC: mac(i)})
		}
	}
	root := &node{ops: prefix, run: RunHistory(cfgIdx, mode, prefix)}
	c.Add(*mkCase(c, cfgIdx, mode, root.ops, root.run, true, "bfs"))
	level := []*node{root}
	seen := map[string]struct{}{}
	for d := 0; d < depth; d++ {
		var next []*node
		for _, n := range level {
			view := viewOf(n.run, len(full))
			for _, o := range alphabet(cfg, view, full) {
				ops := append(append([]*Op{}, n.ops...), o)
				run := RunHistory(cfgIdx, mode, ops)
				c.Add(*mkCase(c, cfgIdx, mode, ops, run, true, "bfs"))
				v := viewOf(run, len(full))
				key := run.Key + fmt.Sprint(v)
				if _, dup := seen[key]; dup {
					continue
				}
				seen[key] = struct{}{}
				next = append(next, &node{ops: ops, run: run})
			}
		}
		level = next
	}
	c.Res.Extra["bfs_states_"+cfg.Name+"_m"+strconv.Itoa(mode)+map[bool]string{true: "_captured", false: ""}[captureFirst]] = len(seen)
}

// random histories with arbitrary option values
func randomHistory(c *core.Ctx, cfgIdx int, n int) []*Op {
	cfg := &Cfgs[cfgIdx]
	r := c.Rnd
	nfBase := u32(cfg.Netfilter.Masked().Addr())
	homeBase := u32(cfg.Home.Masked().Addr())
	interesting := []uint32{u32(cfg.Host), u32(cfg.Router), nfBase, bcastOf(cfg.Netfilter), homeBase, bcastOf(cfg.Home), 0x0a010203, 0xffffffff, 0}
	for i := uint32(1); i < 7; i++ {
		interesting = append(interesting, nfBase+i, homeBase+i, homeBase+8+i)
	}
	var seenIPs []uint32
	anyIP := func() uint32 {
		switch r.Intn(10) {
		case 0:
			return r.Uint32()
		case 1, 2, 3:
			if len(seenIPs) > 0 {
				return seenIPs[r.Intn(len(seenIPs))]
			}
		}
		return interesting[r.Intn(len(interesting))]
	}
	ipOpt := func() []byte {
		switch r.Intn(12) {
		case 0:
			return nil
		case 1:
			return c.RandBytes([]int{0, 1, 3, 5, 8, 16, 16}[r.Intn(7)])
		}
		return ip4(anyIP())
	}
	prls := [][]byte{nil, {1, 3, 6}, {3, 1}, {6, 3, 1, 51, 54}, {1, 121, 3, 6, 15, 119, 252}, {33, 3, 1, 121}, {53, 1, 1, 3, 3}}
	var ops []*Op
	var view [4]clientView
	for len(ops) < n {
		i := r.Intn(4)
		m := mac(i)
		if r.Intn(40) == 0 {
			m = c.RandBytes(6)
			m[0] &= 0xfe
		}
		msg := func(kind string) *Op {
			o := &Op{Kind: kind, CHAddr: m, XID: xid(i, r.Intn(2)), PRL: prls[r.Intn(len(prls))], BFlag: r.Intn(4) == 0}
			switch r.Intn(12) {
			case 0:
				o.CID = []byte{}
			case 1:
				o.CID = mac(r.Intn(4))
			case 2:
				o.CID = append([]byte{1}, m...)
			case 3:
				o.CID = c.RandBytes(1 + r.Intn(8))
			}
			if r.Intn(10) == 0 {
				o.XID = c.RandBytes(4)
			}
			if r.Intn(20) == 0 {
				o.YIAddr = anyIP()
			}
			return o
		}
		known := func() uint32 {
			if view[i].lease != 0 && r.Intn(2) == 0 {
				return view[i].lease
			}
			if view[i].offer != 0 {
				return view[i].offer
			}
			return anyIP()
		}
		var o *Op
		switch k := r.Intn(100); {
		case k < 22:
			o = msg("discover")
			if r.Intn(2) == 0 {
				o.Req = ipOpt()
			}
		case k < 50:
			o = msg("request")
			switch r.Intn(8) {
			case 0, 1, 2, 3: // selecting
				o.Srv, o.Req = ip4(u32(cfg.Host)), ip4(known())
				if r.Intn(6) == 0 {
					o.Srv = ipOpt()
				}
				if r.Intn(6) == 0 {
					o.Req = ipOpt()
				}
			case 4: // renewing: ciaddr and the IP source usually agree, but they are independent fields
				o.CIAddr = known()
				o.Src = o.CIAddr
				switch r.Intn(6) {
				case 0:
					o.Src = 0
				case 1:
					o.Src = anyIP()
				case 2: // sent from the lease, naming something else
					o.CIAddr = anyIP()
				}
			case 5: // rebinding (library reads the source address)
				o.CIAddr = known()
				o.Src = 0xffffffff
				if r.Intn(5) == 0 {
					o.CIAddr = anyIP()
				}
			case 6: // rebooting
				o.Req = ip4(known())
			default:
				o.Req, o.Srv, o.CIAddr = ipOpt(), ipOpt(), anyIP()
				if r.Intn(2) == 0 {
					o.Src = anyIP()
				}
			}
		case k < 58:
			o = msg("decline")
			o.Srv, o.Req = ip4(u32(cfg.Host)), ip4(known())
			if r.Intn(4) == 0 {
				o.Srv, o.Req = ipOpt(), ipOpt()
			}
		case k < 64:
			o = msg("release")
			o.Srv, o.CIAddr = ip4(u32(cfg.Host)), known()
			if r.Intn(4) == 0 {
				o.Srv = ipOpt()
			}
		case k < 74:
			o = &Op{Kind: []string{"capture", "uncapture"}[r.Intn(2)], MAC: mac(r.Intn(4))}
		case k < 82:
			o = &Op{Kind: "tick", Hours: []int64{1000, 1003, 1004, 1005, 1010, 900}[r.Intn(6)]}
		case k < 90:
			o = &Op{Kind: "host", IP: anyIP(), MAC: mac(r.Intn(5))}
		case k < 95:
			o = &Op{Kind: "nohost", IP: anyIP()}
			if len(seenIPs) > 0 && r.Intn(3) != 0 {
				o.IP = seenIPs[r.Intn(len(seenIPs))]
			}
		default:
			o = &Op{Kind: "age", CID: mac(i), Hours: []int64{1, 3, 5, 9}[r.Intn(4)]}
		}
		if isMsg(o.Kind) && o.Src != 0 && (o.Src == 0xffffffff && o.Kind != "request") {
			o.Src = 0
		}
		ops = append(ops, o)
		// the generator peeks at the replies of the history so far every few ops to name real addresses
		if isMsg(o.Kind) && len(ops)%3 == 0 {
			run := RunHistory(cfgIdx, 1+r.Intn(3), ops)
			for _, st := range run.Steps {
				for _, rp := range st.Replies {
					seenIPs = append(seenIPs, rp.YIAddr)
					for j := 0; j < 4; j++ {
						if bytes.Equal(rp.CHAddr, mac(j)) {
							if rp.Type == 2 {
								view[j].offer = rp.YIAddr
							}
							if rp.Type == 5 {
								view[j].lease = rp.YIAddr
							}
						}
					}
				}
			}
		}
	}
	return ops
}

// ---------------------------------------------------------------------------------------------
// scenario templates: parameterised multi-step skeletons over client roles (A, B, C) and a contested address X.
// Every abstract step is resolved against what the client has seen so far (its last offer / lease), so the
// skeletons stay meaningful whatever addresses the server hands out.  They are instantiated over configurations,
// modes, role assignments and initial capture states, in the written order and in permuted orders, and run
// deterministically in every tier.

type absOp struct {
	role int    // 0 = A, 1 = B, 2 = C
	kind string // D Dr Dx Rs Rx Rw Rn Rn0 RnS RnX RnY Rb Rbd RbX Dc Rl cap uncap nohost taken age t0 t5 restart
	arg  int    // restart: target configuration
}

func (a absOp) resolve(cfgIdx int, roles []int, view []clientView, x uint32) *Op {
	cfg := &Cfgs[cfgIdx]
	i := roles[a.role]
	m := mac(i)
	v := view[i]
	pick := func(vs ...uint32) uint32 {
		for _, e := range vs {
			if e != 0 {
				return e
			}
		}
		return x
	}
	host := ip4(u32(cfg.Host))
	msg := func(kind string, k int) *Op { return &Op{Kind: kind, CHAddr: m, XID: xid(i, k), PRL: []byte{1, 3, 6}} }
	switch a.kind {
	case "D":
		return msg("discover", 1)
	case "Dr":
		o := msg("discover", 1)
		o.Req = ip4(x)
		return o
	case "Dx": // a new transaction
		return msg("discover", 2)
	case "Rs":
		o := msg("request", 1)
		o.Srv, o.Req = host, ip4(pick(v.offer, v.lease))
		return o
	case "Rx": // selecting REQUEST of another transaction for the offered address
		o := msg("request", 3)
		o.Srv, o.Req = host, ip4(pick(v.offer, v.lease))
		return o
	case "Rw":
		o := msg("request", 1)
		o.Srv, o.Req = ip4(u32(cfg.Router)), ip4(pick(v.offer, v.lease))
		return o
	case "Rn":
		o := msg("request", 1)
		o.CIAddr = pick(v.lease, v.offer)
		o.Src = o.CIAddr
		return o
	case "Rn0": // renewal whose IP source is still 0.0.0.0: ciaddr names the lease
		o := msg("request", 1)
		o.CIAddr = pick(v.lease, v.offer)
		return o
	case "RnS": // renewal sent from another address than the one it names
		o := msg("request", 1)
		o.CIAddr = pick(v.lease, v.offer)
		o.Src = o.CIAddr + 1
		return o
	case "RnX": // renewal that names ANOTHER address (ciaddr) but is sent from the leased one
		o := msg("request", 1)
		o.Src = pick(v.lease, v.offer)
		o.CIAddr = o.Src + 1
		return o
	case "RnY": // renewal that names the contested address, sent from the leased one
		o := msg("request", 1)
		o.Src = pick(v.lease, v.offer)
		o.CIAddr = x
		return o
	case "RbX": // rebinding (broadcast source) that names another address than the lease
		o := msg("request", 1)
		o.CIAddr = pick(v.lease, v.offer) + 1
		o.Src = 0xffffffff
		return o
	case "Rbd": // rebinding
		o := msg("request", 1)
		o.CIAddr = pick(v.lease, v.offer)
		o.Src = 0xffffffff
		return o
	case "Rb":
		o := msg("request", 1)
		o.Req = ip4(pick(v.lease, v.offer))
		return o
	case "taken": // the session sees the client's address (lease, else offer) in use by a stranger's MAC
		return &Op{Kind: "host", IP: pick(v.lease, v.offer), MAC: mac(7)}
	case "Dc":
		o := msg("decline", 1)
		o.Srv, o.Req = host, ip4(pick(v.lease, v.offer))
		return o
	case "Rl":
		o := msg("release", 1)
		o.Srv, o.CIAddr = host, pick(v.lease, v.offer)
		return o
	case "cap":
		return &Op{Kind: "capture", MAC: m}
	case "uncap":
		return &Op{Kind: "uncapture", MAC: m}
	case "nohost":
		return &Op{Kind: "nohost", IP: pick(v.lease, v.offer)}
	case "age":
		return &Op{Kind: "age", CID: m, Hours: 9}
	case "t0":
		return &Op{Kind: "tick", Hours: 1000}
	case "t5":
		return &Op{Kind: "tick", Hours: 1005}
	case "restart":
		return &Op{Kind: "restart", Cfg: a.arg}
	}
	panic("unknown abstract op " + a.kind)
}

func parseSkeleton(s string) []absOp {
	var out []absOp
	for _, t := range strings.Fields(s) {
		p := strings.SplitN(t, ".", 2)
		role := map[string]int{"A": 0, "B": 1, "C": 2, "-": 0}[p[0]]
		out = append(out, absOp{role: role, kind: p[1]})
	}
	return out
}

// skeletons: "<role>.<kind>"; "-" for steps without a client
var skeletons = []string{
	// a pending offer outlives its lease entry (minute tick) while another client takes the address
	"A.Dr -.t0 B.Dr B.Rs A.D A.Rs",
	// an expired lease is taken over, the old holder comes back
	"A.Dr A.Rs -.t5 B.Dr B.Rs A.Rs A.Rn A.D",
	"A.Dr A.Rs A.age B.Dr A.Rn A.D B.Rs",
	// two clients are offered the same address
	"A.Dr B.Dr A.Rs B.Rs B.D B.Rs",
	// the holder gives the address up (decline / other server / release), another client takes it
	"A.Dr A.Rs A.Dc B.Dr B.Rs A.Rn A.Rs",
	"A.Dr A.Rs A.Rw B.Dr B.Rs A.Rs",
	"A.Dr A.Rs A.Rl B.Dr B.Rs A.Rn",
	// the session forgets the holder's address
	"A.Dr A.Rs A.nohost B.Dr B.Rs A.Rn",
	// capture toggles between the messages of one client
	"A.D A.Rs A.cap A.Rn A.D A.Rs A.uncap A.Rn A.D",
	"A.D A.cap A.Rs A.D A.uncap A.Rs",
	// transaction ids: a REQUEST of another transaction, a second DISCOVER, the first transaction's REQUEST
	"A.D A.Rx A.Rs",
	"A.D A.Dx A.Rs A.Rx B.D B.Rx",
	"A.Dr A.Rs A.Rx A.Rb A.Rn",
	// renewals / rebindings whose ciaddr and IP source differ: only ciaddr names the lease
	"A.Dr A.Rs A.RnX A.Rn A.RnS A.Rn0 A.RbX",
	"A.Dr A.Rs B.D B.Rs A.RnY B.RnX A.Rbd",
	// the session sees a pending offer / a lease in use by another MAC (the fixed defect confirm-after-session-conflict)
	"A.Dr A.taken A.D A.Rs A.Rn",
	"A.Dr A.taken A.Rs A.Dx A.Rx",
	"A.Dr A.Rs A.taken A.Rn0 A.Rb A.Rs",
	"A.Dr A.Rs A.taken A.Rbd A.D A.Rs",
}

// restart skeleton: two clients hold leases (B captured), the server restarts under configuration %d, every
// client renews, re-discovers and a newcomer joins
const restartSkeleton = "A.D A.Rs B.cap B.D B.Rs -.restart B.cap A.Rn A.D A.Rs B.Rn B.D B.Rs C.D C.Rs C.Rn"

func permutations(n int, limit int) [][]int {
	var out [][]int
	idx := make([]int, n)
	for i := range idx {
		idx[i] = i
	}
	var rec func(k int)
	rec = func(k int) {
		if len(out) >= limit {
			return
		}
		if k == n {
			out = append(out, append([]int{}, idx...))
			return
		}
		for i := k; i < n; i++ {
			idx[k], idx[i] = idx[i], idx[k]
			rec(k + 1)
			idx[k], idx[i] = idx[i], idx[k]
		}
	}
	rec(0)
	return out
}

// runScenario instantiates the abstract steps one by one against the running server.
func runScenario(cfgIdx, mode int, abs []absOp, roles []int, captured []int, x uint32) ([]*Op, *Run) {
	withFile := false
	for _, a := range abs {
		withFile = withFile || a.kind == "restart"
	}
	w, cleanup, err := newHistoryWorld(cfgIdx, mode, withFile)
	defer cleanup()
	if err != nil {
		return nil, &Run{Findings: []Finding{{Prop: "C11", What: "cannot construct handler: " + err.Error()}}}
	}
	r := newRunner(w)
	var ops []*Op
	view := make([]clientView, 4)
	do := func(o *Op) {
		ops = append(ops, o)
		st := r.step(o)
		for _, rp := range st.Replies {
			for j := range view {
				if bytes.Equal(rp.CHAddr, mac(j)) {
					if rp.Type == 2 {
						view[j].offer = rp.YIAddr
					}
					if rp.Type == 5 {
						view[j].lease = rp.YIAddr
					}
				}
			}
		}
	}
	for _, i := range captured {
		do(&Op{Kind: "capture", MAC: mac(i)})
	}
	for _, a := range abs {
		do(a.resolve(w.CfgIdx, roles, view, x))
	}
	return ops, r.finish()
}

func scenarios(c *core.Ctx) {
	n := 0
	emit := func(cfgIdx, mode int, abs []absOp, roles []int, captured []int, x uint32) {
		ops, run := runScenario(cfgIdx, mode, abs, roles, captured, x)
		c.Add(*mkCase(c, cfgIdx, mode, ops, run, true, "scenario"))
		n++
	}
	for si, sk := range skeletons {
		abs := parseSkeleton(sk)
		for cfgIdx := 0; cfgIdx < NumBase; cfgIdx++ {
			if !c.NextMine() { // sharded run: one unit per (skeleton, configuration)
				continue
			}
			cfg := &Cfgs[cfgIdx]
			nf := u32(cfg.Netfilter.Masked().Addr())
			home := u32(cfg.Home.Masked().Addr())
			for mode := 1; mode <= 3; mode++ {
				for _, roles := range [][]int{{0, 1, 2}, {1, 0, 2}, {2, 1, 0}} {
					// contested address: a netfilter pool address when the clients start captured, a home address otherwise
					emit(cfgIdx, mode, abs, roles, nil, home+3)
					emit(cfgIdx, mode, abs, roles, nil, nf+2)
					emit(cfgIdx, mode, abs, roles, []int{roles[0], roles[1]}, nf+3)
					emit(cfgIdx, mode, abs, roles, []int{roles[1]}, nf+2)
				}
			}
			// permuted orders of the skeleton (all of them up to 6 steps, a deterministic subset beyond)
			perms := permutations(len(abs), c.Scale(720, 5040))
			mode := 1 + (si+cfgIdx)%3
			for pi, p := range perms {
				if pi == 0 {
					continue
				}
				q := make([]absOp, len(abs))
				for k, j := range p {
					q[k] = abs[j]
				}
				if cfgIdx == 0 {
					emit(cfgIdx, mode, q, []int{0, 1, 2}, nil, home+3)
				} else {
					emit(cfgIdx, mode, q, []int{0, 1, 2}, []int{0, 1}, nf+3)
				}
			}
		}
	}
	// restart with an unchanged and with a changed configuration (one SubnetConfig field at a time)
	for target := 0; target < len(Cfgs); target++ {
		if target != 0 && target < NumBase {
			continue
		}
		if !c.NextMine() {
			continue
		}
		abs := parseSkeleton(restartSkeleton)
		for k := range abs {
			if abs[k].kind == "restart" {
				abs[k].arg = target
			}
		}
		for mode := 1; mode <= 3; mode++ {
			emit(0, mode, abs, []int{0, 1, 2}, nil, u32(Cfgs[0].Home.Masked().Addr())+3)
			emit(0, mode, abs, []int{1, 2, 0}, nil, u32(Cfgs[0].Home.Masked().Addr())+3)
		}
	}
	c.Res.Extra["scenario_histories"] = n
}

func Gen(c *core.Ctx) {
	initOnce()
	if !c.Verbose {
		if f, err := os.OpenFile(os.DevNull, os.O_WRONLY, 0); err == nil {
			os.Stdout = f // the library prints diagnostics with fmt.Println
		}
	}
	c.Res.Rule = "non-trivial = history with at least one (pre, op, post, replies) step not checked before in this run"
	// Sharded run (checks.json "shards", core.Ctx.Mine): the histories are independent of one another (each starts
	// from a fresh handler), so the shards split them - corpus lines and random histories round robin, the scenarios
	// per (skeleton, configuration), the exhaustive search per handler mode (the three modes cost the same); every
	// shard draws the same random stream and skips the evaluation of what is not its own.
	for i, l := range c.CorpusLines() {
		if !c.Mine(i) {
			continue
		}
		if cs := Eval(c, l); cs != nil {
			c.Add(*cs)
		}
	}
	depth := c.Scale(4, 6)
	if c.First() {
		genNew(c)
	}
	scenarios(c)
	if c.Prop == "C12" {
		for k := 0; k < c.Scale(6, 60); k++ {
			line := fmt.Sprintf("dhcp.conc %d %d %d %d", k%NumBase, 1+(k/NumBase)%3, c.Rnd.Intn(1<<20), c.Scale(600, 3000))
			if !c.Mine(k) {
				continue
			}
			if cs := Eval(c, line); cs != nil {
				c.Add(*cs)
			}
		}
	}
	for cfgIdx := 0; cfgIdx < NumBase; cfgIdx++ {
		for mode := 1; mode <= 3; mode++ {
			if !c.Mine(mode - 1) {
				continue
			}
			d := depth
			if cfgIdx != 0 {
				d--
			}
			full := []bool{true, true, false}
			bfs(c, cfgIdx, mode, d, full, false)
			bfs(c, cfgIdx, mode, d, []bool{true, false, false}, true)
		}
	}
	nh := c.Scale(240, 6000)
	for k := 0; k < nh; k++ {
		cfgIdx := k % NumBase
		mode := 1 + (k/NumBase)%3
		ops := randomHistory(c, cfgIdx, 10+c.Rnd.Intn(51))
		if !c.Mine(k) {
			continue
		}
		run := RunHistory(cfgIdx, mode, ops)
		c.Add(*mkCase(c, cfgIdx, mode, ops, run, true, "random"))
	}
	c.Res.Extra["exercised"] = Stats
	c.Res.Extra["distinct_steps_checked"] = len(seenSteps)
}
