// Package c10: retained state never aliases the caller's packet buffer — differential execution.
// Every history is executed twice in fresh worker processes (process-global state of the library
// starts equal): `scribble` = one shared receive buffer overwritten after every packet, `private` = a
// fresh never-modified buffer per packet.  The transcripts (notifications, emitted frames, host/MAC
// tables, learned names, DHCP lease file, IPv6 router table, DNS table) must be identical.
package c10

import (
	"bytes"
	"fmt"
	"math/rand"
	"net/netip"
	"os"
	"os/exec"
	"runtime"
	"sort"
	"strings"
	"time"

	"github.com/irai/packet"
	arp "github.com/irai/packet/handlers/arp_spoofer"
	dhcp "github.com/irai/packet/handlers/dhcp4_spoofer"
	dns "github.com/irai/packet/handlers/dns_naming"
	icmp "github.com/irai/packet/handlers/icmp_spoofer"
	"verif/harness/core"
	"verif/harness/dnsgen"
	"verif/harness/frames"
	"verif/harness/ndpgen"
	"verif/harness/sess"
)

var (
	hostMAC   = []byte{2, 0, 0, 0, 0, 1}
	routerMAC = []byte{2, 0, 0, 0, 0, 0x11}
	bcast     = []byte{0xff, 0xff, 0xff, 0xff, 0xff, 0xff}
	names     = []string{"alpha", "bravo-pc", "charlie.local", "delta", "echo-phone"}
	sites     = []string{"www.example.com", "cdn.test.org", "a.b.c.d.example.net", "x.io"}
)

func cmac(i int) []byte { return []byte{2, 0, 0, 0, 2, byte(i)} }
func cip(i int) []byte  { return []byte{192, 168, 0, byte(30 + i)} }
func clla(i int) []byte { return []byte{0xfe, 0x80, 0, 0, 0, 0, 0, 0, 0, 0, 0, 0, 0, 0, 2, byte(i)} }

// History builds a deterministic packet history from the seed (the packet mix C07 replays as well).
func History(seed int64, n int) [][]byte { return history(seed, n, false) }

// dhcpFrame wraps a DHCP message of a client (port 68 -> 67) or of another server (67 -> 68).
func dhcpFrame(srcMAC, srcIP, dstIP []byte, fromServer bool, d []byte) []byte {
	sp, dp := 68, 67
	if fromServer {
		sp, dp = 67, 68
	}
	return frames.Ether(bcast, srcMAC, 0x0800, 0, frames.IP4(frames.IP4Opts{TotalLen: -1, Proto: 17, Src: srcIP, Dst: dstIP, TTL: 64}, frames.UDP(sp, dp, -1, d)))
}

// history: rich adds the DHCP transactions that make the server start background senders (forged DECLINE to the
// home router in the secondary modes): init-reboot / renew / rebind REQUESTs with a client identifier and a host
// name from clients with and without a lease, selects for another server, DECLINE / RELEASE, OFFERs of another server.
func history(seed int64, n int, rich bool) [][]byte {
	r := rand.New(rand.NewSource(seed))
	var h [][]byte
	xid := func() []byte { return []byte{byte(r.Intn(256)), byte(r.Intn(256)), byte(r.Intn(256)), byte(r.Intn(256))} }
	zero, all := []byte{0, 0, 0, 0}, []byte{255, 255, 255, 255}
	kinds := 10
	if rich {
		kinds = 24
	}
	udp4 := func(src, dst []byte, srcIP, dstIP []byte, sp, dp int, payload []byte) []byte {
		return frames.Ether(dst, src, 0x0800, 0, frames.IP4(frames.IP4Opts{TotalLen: -1, Proto: 17, Src: srcIP, Dst: dstIP, TTL: 64}, frames.UDP(sp, dp, -1, payload)))
	}
	allNodes := []byte{0xff, 2, 0, 0, 0, 0, 0, 0, 0, 0, 0, 0, 0, 0, 0, 1}
	for len(h) < n {
		i := r.Intn(5)
		switch r.Intn(kinds) {
		case 10, 11: // REQUEST without server id: init-reboot (requested address), renewing, rebinding
			name := names[r.Intn(len(names))]
			cid := append([]byte{1}, cmac(i)...)
			opts := [][2][]byte{{{12}, []byte(name)}, {{61}, cid}, {{55}, {1, 3, 6, 15}}}
			if r.Intn(4) == 0 { // some clients are keyed by their MAC
				opts = [][2][]byte{{{12}, []byte(name)}, {{55}, {1, 3, 6}}}
			}
			addr := cip(r.Intn(6))
			if r.Intn(2) == 0 { // the address the full transactions below obtain
				addr = []byte{192, 168, 0, byte(60 + i)}
			}
			switch r.Intn(4) {
			case 0, 1:
				q := frames.DHCP(1, xid(), 0, nil, nil, cmac(i), 3, append(opts, [2][]byte{{50}, addr}))
				h = append(h, dhcpFrame(cmac(i), zero, all, false, q))
			case 2:
				q := frames.DHCP(1, xid(), 0, addr, nil, cmac(i), 3, opts)
				h = append(h, dhcpFrame(cmac(i), addr, []byte{192, 168, 0, 129}, false, q))
			default:
				q := frames.DHCP(1, xid(), 0x8000, addr, nil, cmac(i), 3, opts)
				h = append(h, dhcpFrame(cmac(i), zero, all, false, q))
			}
		case 12: // full transaction naming an address, select for us or for the home router, then sometimes DECLINE / RELEASE
			x := xid()
			name := names[r.Intn(len(names))]
			cid := append([]byte{1}, cmac(i)...)
			addr := []byte{192, 168, 0, byte(60 + i)} // not used by the plain traffic: free in the home pool
			if r.Intn(3) == 0 {
				addr = []byte{192, 168, 0, byte(160 + i)} // in the netfilter pool (captured clients)
			}
			d := frames.DHCP(1, x, 0x8000, nil, nil, cmac(i), 1, [][2][]byte{{{12}, []byte(name)}, {{61}, cid}, {{50}, addr}, {{55}, {1, 3, 6}}})
			h = append(h, dhcpFrame(cmac(i), zero, all, false, d))
			srv := []byte{192, 168, 0, 129}
			if r.Intn(3) == 0 {
				srv = []byte{192, 168, 0, 11}
			}
			q := frames.DHCP(1, x, 0x8000, nil, nil, cmac(i), 3, [][2][]byte{{{12}, []byte(name)}, {{61}, cid}, {{50}, addr}, {{54}, srv}, {{55}, {1, 3, 6}}})
			h = append(h, dhcpFrame(cmac(i), zero, all, false, q))
			switch r.Intn(4) {
			case 0:
				e := frames.DHCP(1, xid(), 0, nil, nil, cmac(i), 4, [][2][]byte{{{61}, cid}, {{50}, addr}, {{54}, {192, 168, 0, 129}}})
				h = append(h, dhcpFrame(cmac(i), zero, all, false, e))
			case 1:
				e := frames.DHCP(1, xid(), 0, addr, nil, cmac(i), 7, [][2][]byte{{{61}, cid}, {{54}, {192, 168, 0, 129}}})
				h = append(h, dhcpFrame(cmac(i), addr, []byte{192, 168, 0, 129}, false, e))
			}
		case 14: // ARP reply / gratuitous announcement
			h = append(h, frames.Ether(hostMAC, cmac(i), 0x0806, 0, frames.ARP(2, 6, 4, cmac(i), cip(r.Intn(6)), hostMAC, []byte{192, 168, 0, 129})))
		case 15: // neighbour advertisement with target link-layer address / router solicitation with source link-layer address
			if r.Intn(2) == 0 {
				body := append(append([]byte{}, clla(i)...), append([]byte{2, 1}, cmac(i)...)...)
				h = append(h, frames.Ether([]byte{0x33, 0x33, 0, 0, 0, 1}, cmac(i), 0x86dd, 0, frames.IP6(frames.IP6Opts{PayloadLen: -1, Next: 58, Hop: 255, Src: clla(i), Dst: allNodes}, frames.ICMP(136, 0, 0x6000, 0, body))))
			} else {
				h = append(h, frames.Ether([]byte{0x33, 0x33, 0, 0, 0, 2}, cmac(i), 0x86dd, 0, frames.IP6(frames.IP6Opts{PayloadLen: -1, Next: 58, Hop: 255, Src: clla(i), Dst: []byte{0xff, 2, 0, 0, 0, 0, 0, 0, 0, 0, 0, 0, 0, 0, 0, 2}}, frames.ICMP(133, 0, 0, 0, append([]byte{1, 1}, cmac(i)...)))))
			}
		case 16: // echo request / reply, v4 and v6
			t4, t6 := 8, 128
			if r.Intn(2) == 0 {
				t4, t6 = 0, 129
			}
			if r.Intn(2) == 0 {
				h = append(h, frames.Ether(hostMAC, cmac(i), 0x0800, 0, frames.IP4(frames.IP4Opts{TotalLen: -1, Proto: 1, Src: cip(i), Dst: []byte{192, 168, 0, 129}, TTL: 64}, frames.ICMP(t4, 0, 7, r.Intn(100), []byte("abcdefgh")))))
			} else {
				h = append(h, frames.Ether(hostMAC, cmac(i), 0x86dd, 0, frames.IP6(frames.IP6Opts{PayloadLen: -1, Next: 58, Hop: 64, Src: clla(i), Dst: clla(9)}, frames.ICMP(t6, 0, 7, r.Intn(100), []byte("abcdefgh")))))
			}
		case 17, 18: // router advertisement with an arbitrary option set (prefix, route information, RDNSS, DNSSL, MTU, link-layer, unknown)
			rt := 9 + r.Intn(2)
			ra := ndpgen.RA(64, byte(r.Intn(256))&0xf8, uint16(r.Intn(4000)), 0, 0, ndpgen.RandOptions(r, 6))
			h = append(h, frames.Ether([]byte{0x33, 0x33, 0, 0, 0, 1}, cmac(rt), 0x86dd, 0, frames.IP6(frames.IP6Opts{PayloadLen: -1, Next: 58, Hop: 255, Src: clla(rt), Dst: allNodes}, ra)))
		case 19: // mDNS response with several record types (A, AAAA, PTR, SRV, TXT …)
			pool := [][]byte{cip(i), cip((i + 1) % 6)}
			m := dnsgen.Build(dnsgen.RandMDNS(r, pool), dnsgen.Opts{Compress: r.Intn(2) == 0, Rnd: r}).Bytes
			h = append(h, udp4(cmac(i), []byte{1, 0, 0x5e, 0, 0, 0xfb}, cip(i), []byte{224, 0, 0, 251}, 5353, 5353, m))
		case 20: // NBNS response (name registration / node status)
			m := dnsgen.Build(dnsgen.RandNBNS(r), dnsgen.Opts{Rnd: r}).Bytes
			h = append(h, udp4(cmac(i), bcast, cip(i), []byte{192, 168, 0, 255}, 137, 137, m))
		case 21: // SSDP NOTIFY / LLMNR response
			if r.Intn(2) == 0 {
				txt := "NOTIFY * HTTP/1.1\r\nHOST: 239.255.255.250:1900\r\nCACHE-CONTROL: max-age=" + fmt.Sprint(60+r.Intn(1800)) + "\r\nLOCATION: http://" + netip.AddrFrom4([4]byte(cip(i))).String() + ":49152/d.xml\r\nNT: upnp:rootdevice\r\nNTS: ssdp:alive\r\nSERVER: Linux UPnP/1.0 " + names[r.Intn(len(names))] + "\r\nUSN: uuid:1234::upnp:rootdevice\r\n\r\n"
				h = append(h, udp4(cmac(i), []byte{1, 0, 0x5e, 0x7f, 0xff, 0xfa}, cip(i), []byte{239, 255, 255, 250}, 1900, 1900, []byte(txt)))
			} else {
				nm := names[r.Intn(len(names))]
				m := frames.DNSMsg(r.Intn(65536), 0x8000, nm, 1, []frames.RR{{Name: nm, Type: 1, TTL: 30, Data: cip(i)}}, false)
				h = append(h, udp4(cmac(i), hostMAC, cip(i), []byte{192, 168, 0, 129}, 5355, 50000+r.Intn(100), m))
			}
		case 22: // DNS response with AAAA and PTR records
			site := sites[r.Intn(len(sites))]
			ans := []frames.RR{{Name: site, Type: 28, TTL: 60, Data: []byte{0x20, 1, 0xd, 0xb8, 0, 0, 0, 0, 0, 0, 0, 0, 0, 0, 0, byte(r.Intn(256))}},
				{Name: "4.3.2.1.in-addr.arpa", Type: 12, TTL: 60, Data: frames.DNSName(site)}}
			m := frames.DNSMsg(r.Intn(65536), 0x8180, site, 28, ans, r.Intn(2) == 0)
			h = append(h, udp4(routerMAC, cmac(i), []byte{192, 168, 0, 11}, cip(i), 53, 40000+r.Intn(1000), m))
		case 23: // a frame from our own NIC / to a multicast MAC (not to be tracked as a host)
			h = append(h, udp4(hostMAC, []byte{1, 0, 0x5e, 0, 0, 1}, []byte{192, 168, 0, 129}, []byte{224, 0, 0, 1}, 40000, 40001, []byte{9}))
		case 13: // OFFER of the home router to a client (seen by us: the secondary modes answer with a forged DECLINE)
			cid := append([]byte{1}, cmac(i)...)
			o := frames.DHCP(2, xid(), 0x8000, nil, cip(i), cmac(i), 2, [][2][]byte{{{54}, {192, 168, 0, 11}}, {{51}, {0, 0, 14, 16}}, {{61}, cid}, {{1}, {255, 255, 255, 0}}, {{3}, {192, 168, 0, 11}}})
			h = append(h, dhcpFrame(routerMAC, []byte{192, 168, 0, 11}, all, true, o))
		case 0: // ARP request / announcement
			h = append(h, frames.Ether(bcast, cmac(i), 0x0806, 0, frames.ARP(1, 6, 4, cmac(i), cip(r.Intn(6)), bcast, []byte{192, 168, 0, 11})))
		case 1: // DHCP discover + request with host name
			x := xid()
			name := names[r.Intn(len(names))]
			cid := append([]byte{1}, cmac(i)...)
			d := frames.DHCP(1, x, 0x8000, nil, nil, cmac(i), 1, [][2][]byte{{{12}, []byte(name)}, {{61}, cid}, {{55}, {1, 3, 6, 15}}})
			h = append(h, frames.Ether(bcast, cmac(i), 0x0800, 0, frames.IP4(frames.IP4Opts{TotalLen: -1, Proto: 17, Src: []byte{0, 0, 0, 0}, Dst: []byte{255, 255, 255, 255}, TTL: 64}, frames.UDP(68, 67, -1, d))))
			q := frames.DHCP(1, x, 0x8000, nil, nil, cmac(i), 3, [][2][]byte{{{12}, []byte(name)}, {{61}, cid}, {{50}, cip(i)}, {{54}, {192, 168, 0, 129}}, {{55}, {1, 3, 6, 15}}})
			h = append(h, frames.Ether(bcast, cmac(i), 0x0800, 0, frames.IP4(frames.IP4Opts{TotalLen: -1, Proto: 17, Src: []byte{0, 0, 0, 0}, Dst: []byte{255, 255, 255, 255}, TTL: 64}, frames.UDP(68, 67, -1, q))))
		case 2: // DNS response with CNAME + A records to a client
			site := sites[r.Intn(len(sites))]
			ans := []frames.RR{{Name: site, Type: 5, TTL: 60, Data: frames.DNSName("edge." + site)}, {Name: "edge." + site, Type: 1, TTL: 60, Data: []byte{93, 184, byte(r.Intn(256)), 34}}}
			m := frames.DNSMsg(r.Intn(65536), 0x8180, site, 1, ans, r.Intn(2) == 0)
			h = append(h, frames.Ether(cmac(i), routerMAC, 0x0800, 0, frames.IP4(frames.IP4Opts{TotalLen: -1, Proto: 17, Src: []byte{192, 168, 0, 11}, Dst: cip(i), TTL: 64}, frames.UDP(53, 40000+r.Intn(1000), -1, m))))
		case 3: // mDNS response announcing a host name
			nm := names[r.Intn(len(names))] + ".local"
			ans := []frames.RR{{Name: nm, Type: 1, Class: 0x8001, TTL: 120, Data: cip(i)}}
			m := frames.DNSMsg(0, 0x8400, "", 0, ans, false)
			h = append(h, frames.Ether([]byte{1, 0, 0x5e, 0, 0, 0xfb}, cmac(i), 0x0800, 0, frames.IP4(frames.IP4Opts{TotalLen: -1, Proto: 17, Src: cip(i), Dst: []byte{224, 0, 0, 251}, TTL: 255}, frames.UDP(5353, 5353, -1, m))))
		case 4: // router advertisement from a second router
			opts := append(frames.RAPrefixOpt(64, 0xc0, 7200, 1800, []byte{0x20, 0x01, 0x0d, 0xb8, 0, byte(i), 0, 0, 0, 0, 0, 0, 0, 0, 0, 0}), frames.RAMTUOpt(1500-i)...)
			opts = append(opts, frames.RASLLAOpt(cmac(9))...)
			opts = append(opts, frames.RARDNSSOpt(600, []byte{0x20, 0x01, 0x48, 0x60, 0x48, 0x60, 0, 0, 0, 0, 0, 0, 0, 0, 0x88, byte(i)})...)
			h = append(h, frames.Ether([]byte{0x33, 0x33, 0, 0, 0, 1}, cmac(9), 0x86dd, 0, frames.IP6(frames.IP6Opts{PayloadLen: -1, Next: 58, Hop: 255, Src: clla(9), Dst: []byte{0xff, 2, 0, 0, 0, 0, 0, 0, 0, 0, 0, 0, 0, 0, 0, 1}}, frames.RA(64, 0x40, 1800, opts))))
		case 5: // neighbour solicitation from a client (LLA host creation)
			h = append(h, frames.Ether([]byte{0x33, 0x33, 0xff, 0, 0, 1}, cmac(i), 0x86dd, 0, frames.IP6(frames.IP6Opts{PayloadLen: -1, Next: 58, Hop: 255, Src: clla(i), Dst: clla(9)}, frames.ICMP(135, 0, 0, 0, append(clla(9), append([]byte{1, 1}, cmac(i)...)...)))))
		default: // plain IPv4 traffic incl. IP changes of a MAC
			h = append(h, frames.Ether(routerMAC, cmac(i), 0x0800, 0, frames.IP4(frames.IP4Opts{TotalLen: -1, Proto: 17, Src: cip((i+r.Intn(2))%6), Dst: []byte{8, 8, 8, 8}, TTL: 64}, frames.UDP(40000, 443, -1, []byte{1, 2, 3}))))
		}
	}
	return h
}

// canonFrame: DHCP messages carry their non-ordered options in Go map iteration order and client
// messages started by the handler use random transaction ids — canonicalise both.
func canonFrame(f []byte) string {
	if len(f) > 42+240 && f[12] == 8 && f[13] == 0 && f[23] == 17 && (f[36] == 0 && (f[37] == 67 || f[37] == 68)) {
		g := append([]byte{}, f...)
		opts := g[42+240:]
		// sent as a client with a random transaction id: only RELEASE (forceRelease passes no xid); DECLINE and the
		// DISCOVER storm carry given ids, which must not depend on the buffer mode
		if g[34] == 0 && g[35] == 68 && len(opts) >= 3 && opts[0] == 53 && opts[2] == 7 {
			copy(g[42+4:42+8], []byte{0, 0, 0, 0})
			g[24], g[25] = 0, 0 // IPv4 checksum unaffected; UDP checksum is zero anyway
		}
		var tlvs []string
		i := 0
		for i < len(opts) && opts[i] != 255 {
			if opts[i] == 0 {
				i++
				continue
			}
			if i+1 >= len(opts) || i+2+int(opts[i+1]) > len(opts) {
				break
			}
			tlvs = append(tlvs, core.Hex(opts[i:i+2+int(opts[i+1])]))
			i += 2 + int(opts[i+1])
		}
		sort.Strings(tlvs)
		return core.Hex(g[:42+240]) + " opts{" + strings.Join(tlvs, ",") + "}"
	}
	return core.Hex(f)
}

func nameStr(n packet.NameEntry) string { return fmt.Sprintf("%q/%q/%q", n.Name, n.Model, n.OS) }

// worker executes one history in the given buffer mode and returns the transcript.
func worker(mode string, seed int64, n int) string {
	var t strings.Builder
	// one P: a goroutine started by a handler (`go h.forceDecline(...)`) cannot run before the packet loop yields, i.e.
	// not before the receive buffer has been reused - the schedule under which an aliasing argument shows.  The
	// loop then waits until the goroutines a step started have finished, so that the frames they send belong to
	// that step's transcript in both buffer modes.
	runtime.GOMAXPROCS(1)
	s, conn := sess.New(nil)
	ah, _ := arp.New(s)
	h6, _ := icmp.New6(s)
	dh := dns.VerifNewC07(s)
	lease := fmt.Sprintf("%s/build/c10-lease-%d-%s.yml", os.Getenv("VERIF_DIR"), os.Getpid(), mode)
	defer os.Remove(lease)
	// operating mode by history: primary, secondary (forged DECLINEs for every client), secondary-nice (for captured clients)
	dmode := []dhcp.Mode{dhcp.ModePrimaryServer, dhcp.ModeSecondaryServer, dhcp.ModeSecondaryServerNice}[int(seed%3+3)%3]
	if dmode == dhcp.ModeSecondaryServerNice {
		s.Capture(cmac(0))
		s.Capture(cmac(2))
		s.Capture(cmac(3))
	}
	dhcpd, err := dhcp.Config{Mode: dmode, NetfilterIP: netip.MustParsePrefix("192.168.0.129/25"), DNSServer: netip.MustParseAddr("8.8.8.8"), LeaseFilename: lease}.New(s)
	if err != nil {
		return "dhcp.New: " + err.Error()
	}
	fmt.Fprintf(&t, "dhcp mode %d\n", dmode)
	progress := map[string]int{}
	shared := make([]byte, 2048)
	// quiescent number of goroutines (handler loops): start-up goroutines that end by themselves are given time to do so
	base := runtime.NumGoroutine()
	for stable := 0; stable < 5; {
		time.Sleep(5 * time.Millisecond)
		if g := runtime.NumGoroutine(); g == base {
			stable++
		} else {
			base, stable = g, 0
		}
	}
	for k, pkt := range history(seed, n, true) {
		if g := runtime.NumGoroutine(); g < base {
			base = g
		}
		var buf []byte
		if mode == "scribble" {
			buf = shared[:len(pkt)]
			copy(buf, pkt)
		} else {
			buf = append(make([]byte, 0, len(pkt)+16), pkt...)
		}
		res := core.Safely(func() string {
			frame, err := s.Parse(buf)
			if err != nil {
				return "parse-err"
			}
			out := fmt.Sprintf("pid=%d", frame.PayloadID)
			switch frame.PayloadID {
			case packet.PayloadARP:
				ah.ProcessPacket(frame)
			case packet.PayloadICMP6:
				h6.ProcessPacket(frame)
			case packet.PayloadDHCP4:
				dhcpd.ProcessPacket(frame)
			case packet.PayloadDNS:
				e, err := dh.ProcessDNS(frame)
				out += fmt.Sprintf(" dns=%q err=%v", e.Name, err != nil)
			case packet.PayloadMDNS:
				v4, v6, err := dh.ProcessMDNS(frame)
				out += fmt.Sprintf(" mdns=%d/%d err=%v", len(v4), len(v6), err != nil)
				for _, e := range v4 {
					if host := s.FindIP(e.Addr.IP); host != nil {
						host.UpdateMDNSName(e.NameEntry)
					}
				}
			case packet.PayloadNBNS:
				name, err := dh.ProcessNBNS(frame.Host, frame.Ether(), frame.Payload())
				out += fmt.Sprintf(" nbns=%s err=%v", nameStr(name), err != nil)
				if err == nil && frame.Host != nil && name.Name != "" {
					frame.Host.UpdateNBNSName(name)
				}
			case packet.PayloadSSDP:
				name, loc, err := dh.ProcessSSDP(frame.Host, frame.Ether(), frame.Payload())
				out += fmt.Sprintf(" ssdp=%s loc=%q err=%v", nameStr(name), loc, err != nil)
				if err == nil && frame.Host != nil && name.Name != "" {
					frame.Host.UpdateSSDPName(name)
				}
			case packet.PayloadLLMNR:
				v4, v6, err := dh.ProcessMDNS(frame)
				out += fmt.Sprintf(" llmnr=%d/%d err=%v", len(v4), len(v6), err != nil)
				for _, e := range v4 {
					if host := s.FindIP(e.Addr.IP); host != nil {
						host.UpdateLLMNRName(e.NameEntry)
					}
				}
			}
			s.Notify(frame)
			progress[fmt.Sprintf("pid=%d", frame.PayloadID)]++
			return out
		})
		purged := false
		if k%25 == 24 { // the background purge: offline transitions (and probes of silent hosts) on a clock ahead of the packets
			s.VerifPurge(time.Now().Add([]time.Duration{3 * time.Minute, 7 * time.Minute}[(k/25)%2]))
			fmt.Fprintf(&t, "%d purge\n", k)
			purged = true
		}
		if k%30 == 29 { // API calls between packets
			m := cmac(k / 30 % 5)
			if s.IsCaptured(m) {
				s.Release(m)
			} else {
				s.Capture(m)
			}
			fmt.Fprintf(&t, "%d toggle capture %x\n", k, m)
		}
		fmt.Fprintf(&t, "%d %s\n", k, res)
		if mode == "scribble" { // the caller reuses its receive buffer
			for i := range shared {
				shared[i] = 0xee ^ byte(i)
			}
		}
		// background senders started by this step: wait (yielding) until they are gone
		for deadline := time.Now().Add(20 * time.Second); runtime.NumGoroutine() > base && time.Now().Before(deadline); {
			runtime.Gosched()
			time.Sleep(20 * time.Microsecond)
		}
		if g := runtime.NumGoroutine(); g > base {
			base = g // a long-lived goroutine was started: the new quiescent level
		}
		// drain notifications and emitted frames after every step
		var notifs []string
	drain:
		for {
			select {
			case nt := <-s.C:
				progress["notifications"]++
				notifs = append(notifs, fmt.Sprintf("  notif %s %s online=%v dhcp=%s mdns=%s ssdp=%s llmnr=%s nbns=%s router=%v manuf=%q\n", nt.Addr.MAC, nt.Addr.IP, nt.Online,
					nameFull(nt.DHCP4Name), nameFull(nt.MDNSName), nameFull(nt.SSDPName), nameFull(nt.LLMNRName), nameFull(nt.NBNSName), nt.IsRouter, nt.Manufacturer))
			default:
				break drain
			}
		}
		sort.Strings(notifs) // a purge makes several hosts offline in table (map) order
		for _, nl := range notifs {
			t.WriteString(nl)
		}
		var sent []string
		for _, f := range conn.Take() {
			if purged {
				// the probes a purge sends depend on the iteration order of the host table (the probe loop of Session.purge
				// ends at the first link-local IPv6 host) and on the clock (echo id): counted, not compared
				continue
			}
			sent = append(sent, canonFrame(f))
		}
		sort.Strings(sent) // the order between a reply and the frames of background senders is not part of the claim
		for _, f := range sent {
			progress["sent"]++
			fmt.Fprintf(&t, "  sent %s\n", f)
		}
		if k%20 == 19 { // retained state is dumped along the history, not only at its end
			t.WriteString(snapshot(s, h6, dh, dhcpd))
		}
	}
	t.WriteString(snapshot(s, h6, dh, dhcpd))
	progress["hosts"] = len(s.GetHosts())
	progress["leases"] = len(dhcpd.VerifDump().Leases)
	progress["dns"] = len(dh.DNSTable)
	progress["routers"] = len(h6.LANRouters)
	if b, err := os.ReadFile(lease); err == nil {
		t.WriteString("\nleasefile:\n" + canonLeaseFile(string(b)))
	}
	// what the run exercised: the comparison of the two modes means nothing if nothing happened (audit I2)
	var keys []string
	for k := range progress {
		keys = append(keys, k)
	}
	sort.Strings(keys)
	t.WriteString("\nprogress:")
	for _, k := range keys {
		fmt.Fprintf(&t, " %s=%d", k, progress[k])
	}
	t.WriteString("\n")
	return t.String()
}

func nameFull(n packet.NameEntry) string {
	return fmt.Sprintf("%q/%q/%q/%q/%q/exp=%v", n.Type, n.Name, n.Model, n.Manufacturer, n.OS, !n.Expire.IsZero())
}

// snapshot renders the retained state: host and MAC tables with every name and flag, IPv6 router table, DNS table (all record
// kinds), the DHCP lease table in memory.
func snapshot(s *packet.Session, h6 *icmp.Handler6, dh *dns.DNSHandler, dhcpd *dhcp.Handler) string {
	var lines []string
	for _, h := range s.GetHosts() {
		lines = append(lines, fmt.Sprintf("host %s %s online=%v manuf=%q dhcp=%s mdns=%s ssdp=%s llmnr=%s nbns=%s", h.Addr.IP, h.Addr.MAC, h.Online, h.Manufacturer,
			nameFull(h.DHCP4Name), nameFull(h.MDNSName), nameFull(h.SSDPName), nameFull(h.LLMNRName), nameFull(h.NBNSName)))
	}
	for _, e := range s.MACTable.Table {
		lines = append(lines, fmt.Sprintf("mac %s ip4=%s lla=%s gua=%s offer=%s captured=%v router=%v online=%v manuf=%q dhcp=%s mdns=%s ssdp=%s llmnr=%s nbns=%s hosts=%d", e.MAC, e.IP4, e.IP6LLA, e.IP6GUA, e.IP4Offer,
			e.Captured, e.IsRouter, e.Online, e.Manufacturer, nameFull(e.DHCP4Name), nameFull(e.MDNSName), nameFull(e.SSDPName), nameFull(e.LLMNRName), nameFull(e.NBNSName), len(e.HostList)))
	}
	for ip, r := range h6.LANRouters {
		rd := "nil"
		if r.RDNSS != nil {
			rd = fmt.Sprintf("%+v", *r.RDNSS)
		}
		lines = append(lines, fmt.Sprintf("router %s mac=%s flags=%v/%v pref=%v mtu=%v life=%v prefixes=%+v rdnss=%s options=%+v", ip, r.Addr.MAC, r.ManagedFlag, r.OtherCondigFlag, r.Preference, r.MTU, r.DefaultLifetime, r.Prefixes, rd, r.Options))
	}
	for name, e := range dh.DNSTable {
		var ips []string
		for ip := range e.IP4Records {
			ips = append(ips, ip.String())
		}
		sort.Strings(ips)
		var cn []string
		for c := range e.CNameRecords {
			cn = append(cn, c)
		}
		sort.Strings(cn)
		var ip6, ptr []string
		for ip := range e.IP6Records {
			ip6 = append(ip6, ip.String())
		}
		sort.Strings(ip6)
		for k, v := range e.PTRRecords {
			ptr = append(ptr, fmt.Sprintf("%s=%s", k, v.IP))
		}
		sort.Strings(ptr)
		lines = append(lines, fmt.Sprintf("dns %q ip4=%v ip6=%v cname=%v ptr=%v", name, ips, ip6, cn, ptr))
	}
	for _, l := range dhcpd.VerifDump().Leases {
		lines = append(lines, fmt.Sprintf("lease %x state=%d mac=%x ip=%s offer=%s xid=%x subnet=%d", l.CID, l.State, l.MAC, l.IP, l.Offer, l.XID, l.Subnet))
	}
	sort.Strings(lines)
	return "state:\n" + strings.Join(lines, "\n") + "\n"
}

// canonLeaseFile: the lease records are written in Go map iteration order and carry wall-clock instants
// (offerexpiry / dhcpexpiry), the first line is a hash over all of that - drop it, sort the records and blank the
// instants; everything else (client ids, MACs,
// addresses, names, xids) is compared verbatim.
func canonLeaseFile(text string) string {
	lines := strings.Split(text, "\n")
	var head, recs []string
	i := 0
	for ; i < len(lines); i++ {
		if strings.HasPrefix(lines[i], "# sha256: ") {
			continue // integrity line: a hash over the instants below
		}
		head = append(head, lines[i])
		if strings.HasPrefix(lines[i], "leases:") {
			i++
			break
		}
	}
	cur := ""
	for ; i < len(lines); i++ {
		l := lines[i]
		if strings.TrimSpace(l) == "" {
			continue
		}
		if k := strings.Index(l, "expiry: "); k >= 0 {
			l = l[:k] + "expiry: <instant>"
		}
		if strings.HasPrefix(l, "- ") && cur != "" {
			recs = append(recs, cur)
			cur = ""
		}
		cur += l + "\n"
	}
	if strings.TrimSpace(cur) != "" {
		recs = append(recs, cur)
	}
	sort.Strings(recs)
	return strings.Join(head, "\n") + "\n" + strings.Join(recs, "")
}

func runWorker(mode string, seed int64, n int) (string, error) {
	cmd := exec.Command(os.Args[0], "-prop", "C10", "-seed", fmt.Sprint(seed), "-tier", "quick", "-out", os.DevNull)
	cmd.Env = append(os.Environ(), "VERIF_C10_WORKER="+mode, fmt.Sprintf("VERIF_C10_N=%d", n))
	var out bytes.Buffer
	cmd.Stdout = &out
	cmd.Stderr = nil
	done := make(chan error, 1)
	if err := cmd.Start(); err != nil {
		return "", err
	}
	go func() { done <- cmd.Wait() }()
	select {
	case err := <-done:
		return out.String(), err
	case <-time.After(60 * time.Second):
		cmd.Process.Kill()
		return out.String(), fmt.Errorf("worker timed out")
	}
}

// idle reports what a worker transcript did NOT exercise ("" when it made progress everywhere): a history that reached no
// handler, produced no notification, no frame, no host or no lease compares nothing.
func idle(transcript string) string {
	if strings.HasPrefix(transcript, "dhcp.New:") {
		return "the DHCP handler could not be constructed: " + transcript
	}
	k := strings.LastIndex(transcript, "\nprogress:")
	if k < 0 {
		return "the worker did not finish its history"
	}
	got := map[string]int{}
	for _, f := range strings.Fields(transcript[k+len("\nprogress:"):]) {
		var name string
		var n int
		if p := strings.LastIndex(f, "="); p > 0 {
			name = f[:p]
			fmt.Sscan(f[p+1:], &n)
			got[name] = n
		}
	}
	var missing []string
	for _, want := range []string{"pid=3", "pid=7", "pid=10", "pid=12", "pid=13", "notifications", "sent", "hosts", "leases", "dns", "routers"} {
		if got[want] == 0 {
			missing = append(missing, want)
		}
	}
	if len(missing) > 0 {
		return "the history exercised nothing of: " + strings.Join(missing, ", ")
	}
	return ""
}

func firstDiff(a, b string) string {
	la, lb := strings.Split(a, "\n"), strings.Split(b, "\n")
	for i := 0; i < len(la) || i < len(lb); i++ {
		x, y := "<end>", "<end>"
		if i < len(la) {
			x = la[i]
		}
		if i < len(lb) {
			y = lb[i]
		}
		if x != y {
			if len(x) > 300 {
				x = x[:300]
			}
			if len(y) > 300 {
				y = y[:300]
			}
			return fmt.Sprintf("line %d\n  scribbled buffer: %s\n  private buffers : %s", i+1, x, y)
		}
	}
	return ""
}

func Gen(c *core.Ctx) {
	if mode := os.Getenv("VERIF_C10_WORKER"); mode != "" {
		n := 120
		fmt.Sscan(os.Getenv("VERIF_C10_N"), &n)
		fmt.Fprint(core.Out, worker(mode, c.Seed, n))
		return
	}
	c.Res.Rule = "packet histories (ARP, DHCP in primary / secondary / secondary-nice mode by history: discover/select with host names and client ids, init-reboot / renew / rebind REQUESTs with and without lease, selects for another server, DECLINE, RELEASE, OFFERs of another server - i.e. the paths that start background senders of forged DECLINEs, which are awaited after every step on a single P -, DNS responses with CNAME/A and compression pointers, mDNS announcements, router advertisements with prefix/MTU/SLLA/RDNSS options, neighbour solicitations, plain IPv4 traffic with IP changes) through Session.Parse + ARP/ICMPv6/DHCPv4/DNS handlers + Notify, each executed in two fresh worker processes: shared receive buffer scribbled after every packet vs private immutable buffers; transcripts (per-step results, notifications, emitted frames, host/MAC tables, names, router table, DNS table, lease file) must be identical. evaluations = packets × 2 modes; distinct = histories × packets"
	hist := c.Scale(6, 80)
	n := c.Scale(120, 300)
	for i := 0; i < hist; i++ {
		seed := c.Seed*100000 + int64(i)
		a, errA := runWorker("scribble", seed, n)
		b, errB := runWorker("private", seed, n)
		c.Res.Evaluations += 2 * n
		c.Res.Classes["history"]++
		if errA != nil || errB != nil {
			c.Violate(core.Violation{Kind: "tie", What: fmt.Sprintf("C10 worker failed: %v / %v", errA, errB), Replay: []string{fmt.Sprintf("history seed=%d n=%d", seed, n)}})
			continue
		}
		if len(c.Res.Samples) < 3 {
			ls := strings.Split(a, "\n")
			if len(ls) > 6 {
				ls = ls[:6]
			}
			c.Res.Samples = append(c.Res.Samples, fmt.Sprintf("history seed=%d: %s", seed, strings.Join(ls, " | ")))
		}
		c.Res.Extra["transcript_bytes"] = len(a)
		if d := firstDiff(a, b); d != "" {
			c.Violate(core.Violation{Kind: "property", What: "retained state or later output depends on the reuse of the packet buffer: transcripts differ at " + d,
				Replay: []string{fmt.Sprintf("history seed=%d n=%d", seed, n)}})
		} else if w := idle(a); w != "" {
			c.Violate(core.Violation{Kind: "tie", What: "C10 history without progress (the two buffer modes agree vacuously): " + w,
				Replay: []string{fmt.Sprintf("history seed=%d n=%d", seed, n)}})
		}
	}
	c.Res.Extra["distinct_override"] = hist * n
}

// compare runs one history in both buffer modes (fresh worker processes) and returns the first difference.
func compare(seed int64, n int) (diff string, err error) {
	a, errA := runWorker("scribble", seed, n)
	b, errB := runWorker("private", seed, n)
	if errA != nil || errB != nil {
		return "", fmt.Errorf("C10 worker failed: %v / %v", errA, errB)
	}
	return firstDiff(a, b), nil
}

// Eval replays `history seed=<s> n=<n>`.
func Eval(c *core.Ctx, line string) *core.Case {
	var seed int64
	var n int
	if _, err := fmt.Sscanf(line, "history seed=%d n=%d", &seed, &n); err != nil || n <= 0 || n > 5000 {
		return nil
	}
	d, err := compare(seed, n)
	what := ""
	switch {
	case err != nil:
		what = err.Error()
	case d != "":
		what = "retained state or later output depends on the reuse of the packet buffer: transcripts differ at " + d
	}
	if what == "" {
		if a, errA := runWorker("scribble", seed, n); errA == nil {
			if w := idle(a); w != "" {
				what = "C10 history without progress (the two buffer modes agree vacuously): " + w
			}
		}
	}
	return &core.Case{Line: line, Impl: "compared", Cmp: func(a, b string) bool { return true }, Class: "history",
		Oracle: func() (string, string) { return what, "" }}
}

var Runner = core.Runner{Gen: Gen, Eval: Eval}
