// Command harness runs the correspondence check of one property against the real library
// (built from /repo's working tree with -tags verif and the export overlay) and the compiled
// Lean model, and writes a JSON result for ./check.
package main

import (
	"bufio"
	"flag"
	"fmt"
	"io"
	"os"
	"runtime/pprof"
	"strings"
	"time"

	"github.com/irai/packet/fastlog"

	"verif/harness/c01"
	"verif/harness/c03"
	"verif/harness/c03dhcp"
	"verif/harness/c03dns"
	"verif/harness/c04"
	"verif/harness/c07"
	"verif/harness/c08"
	"verif/harness/c08dhcp"
	"verif/harness/c08dns"
	"verif/harness/c08hnd"
	"verif/harness/c08ndp"
	"verif/harness/c09"
	"verif/harness/c10"
	"verif/harness/c11"
	"verif/harness/c13"
	"verif/harness/c14"
	"verif/harness/c15"
	"verif/harness/c17"
	"verif/harness/c18"
	"verif/harness/c19"
	"verif/harness/c20"
	"verif/harness/core"
	"verif/harness/sched"
)

var runners = map[string]core.Runner{
	"C01": c01.Runner01,
	"C02": c01.Runner02,
	"C16": c01.Runner16,
	"C03": {Gen: func(c *core.Ctx) {
		c03.Runner.Gen(c)
		r := c.Res.Rule
		c03dhcp.Runner.Gen(c)
		r = r + " || DHCPv4 options: " + c.Res.Rule
		c03dns.Runner.Gen(c)
		c.Res.Rule = r + " || DNS query: " + c.Res.Rule
	}, Eval: func(c *core.Ctx, l string) *core.Case {
		if cs := c03.Runner.Eval(c, l); cs != nil {
			return cs
		}
		if cs := c03dhcp.Runner.Eval(c, l); cs != nil {
			return cs
		}
		return c03dns.Runner.Eval(c, l)
	}},
	"C04":     c04.Runner,
	"C05":     c04.Runner,
	"C06":     c04.Runner,
	"C07":     withStage(c07.Runner, c08dhcp.FrameStage),
	"C08":     c08.Runner,
	"C09":     c09.Runner,
	"C10":     c10.Runner,
	"C11":     withStage(c11.Runner, c18.RsimStage),
	"C12":     withStage(c11.Runner, c08dhcp.FrameStage),
	"C13":     c13.Runner,
	"C18":     c18.Runner,
	"C03Dhcp": c03dhcp.Runner,
	"C03dns":  c03dns.Runner,
	"C14":     c14.Runner,
	"C15":     c15.Runner,
	"C19":     c19.Runner,
	"C20":     c20.Runner,
	"C08ndp":  c08ndp.Runner,
	"C17":     c17.Runner,
	"C08dns":  c08dns.Runner,
	"C08dhcp": c08dhcp.Runner,
	"C08hnd":  c08hnd.Runner,
}

// withStage: the property's own run followed by a stage of another runner (its lines are evaluated by that runner).
func withStage(base, stage core.Runner) core.Runner {
	return core.Runner{Gen: func(c *core.Ctx) {
		base.Gen(c)
		rule := c.Res.Rule
		if !c.First() { // sharded run: the stage is small and runs in the first shard only
			return
		}
		stage.Gen(c)
		c.Res.Rule = rule + " || " + c.Res.Rule
	}, Eval: func(c *core.Ctx, l string) *core.Case {
		if cs := stage.Eval(c, l); cs != nil {
			return cs
		}
		return base.Eval(c, l)
	}}
}

func main() {
	c08.Sub = []core.Runner{c08dns.Runner, c08ndp.Runner, c03dhcp.Runner, c08dhcp.Runner, c13.FrameRunner, c14.FrameRunner, c08hnd.Runner}
	prop := flag.String("prop", "", "property id")
	seed := flag.Int64("seed", 1, "PRNG seed")
	tier := flag.String("tier", "quick", "quick|thorough")
	model := flag.String("model", "", "path of pktmodel")
	corpus := flag.String("corpus", "", "corpus dir")
	out := flag.String("out", "", "result json")
	known := flag.String("known", "", "comma separated known finding ids")
	replay := flag.String("replay", "", "replay file: evaluate its protocol lines on implementation and model, verbosely")
	flag.Parse()
	// the library logs to stderr through fastlog and prints tables with fmt.Printf: silence both
	fastlog.DefaultIOWriter = io.Discard
	core.Out = os.Stdout
	if null, err := os.OpenFile(os.DevNull, os.O_WRONLY, 0); err == nil {
		os.Stdout = null
	}
	if pf := os.Getenv("VERIF_CPUPROFILE"); pf != "" { // development aid: where does a tier spend its time
		if fh, err := os.Create(pf); err == nil {
			pprof.StartCPUProfile(fh)
			defer pprof.StopCPUProfile()
		}
	}
	run, ok := runners[*prop]
	if !ok {
		fmt.Fprintln(os.Stderr, "no runner for", *prop)
		os.Exit(3)
	}
	run = sched.Wrap(run) // schedule search of the atomicity tie (harness/sched): scenarios registered for this property
	c := core.NewCtx(*prop, *seed, *tier, *model, *corpus)
	for _, k := range strings.Split(*known, ",") {
		if k != "" {
			c.Known[k] = true
		}
	}
	// stall watchdog: a library call that never returns ends the run with what was found so far (core.Watch)
	limit := 180 * time.Second
	if *tier == "thorough" {
		limit = 1200 * time.Second
	}
	c.Watch(*out, limit, map[string]bool{"C01": true, "C08": true, "C09": true, "C19": true}[*prop])
	if *replay != "" {
		c.Verbose = true
		fh, err := os.Open(*replay)
		if err != nil {
			fmt.Fprintln(os.Stderr, err)
			os.Exit(3)
		}
		sc := bufio.NewScanner(fh)
		sc.Buffer(make([]byte, 1<<20), 1<<26)
		for sc.Scan() {
			l := strings.TrimSpace(sc.Text())
			if l == "" || strings.HasPrefix(l, "#") {
				continue
			}
			if cs := run.Eval(c, l); cs != nil {
				cs.Class = "replay"
				c.Add(*cs)
			} else {
				fmt.Fprintln(core.Out, "not a protocol line of", *prop, ":", l)
			}
		}
	} else {
		run.Gen(c)
	}
	c.Finish(*out)
}
