// Package c01 is the correspondence + oracle machinery for the byte-level parsing properties:
// C01 (total, memory-safe), C02 (decodes as the reference decoder), C16 (zero-copy, no allocation).
package c01

import (
	"errors"
	"fmt"
	"net"
	"net/netip"
	"reflect"
	"sort"
	"strconv"
	"strings"
	"testing"
	"time"
	"unsafe"

	"github.com/irai/packet"
	"github.com/irai/packet/fastlog"
	"verif/harness/core"
	"verif/harness/frames"
	"verif/harness/ndpgen"
	"verif/harness/sess"
)

var sentinels = []struct {
	e error
	n string
}{
	{packet.ErrInvalidLen, "ErrInvalidLen"}, {packet.ErrPayloadTooBig, "ErrPayloadTooBig"}, {packet.ErrParseFrame, "ErrParseFrame"},
	{packet.ErrParseProtocol, "ErrParseProtocol"}, {packet.ErrFrameLen, "ErrFrameLen"}, {packet.ErrInvalidConn, "ErrInvalidConn"},
	{packet.ErrInvalidIP, "ErrInvalidIP"}, {packet.ErrInvalidMAC, "ErrInvalidMAC"}, {packet.ErrInvalidIP6LLA, "ErrInvalidIP6LLA"},
	{packet.ErrNotFound, "ErrNotFound"}, {packet.ErrTimeout, "ErrTimeout"}, {packet.ErrInvalidParam, "ErrInvalidParam"},
}

func ErrName(err error) string {
	if err == nil {
		return "-"
	}
	for _, s := range sentinels {
		if errors.Is(err, s.e) {
			return s.n
		}
	}
	return "other"
}

// ---------------------------------------------------------------------------------------------
// views

var viewTypes = map[string]reflect.Type{
	"Ether": reflect.TypeOf(packet.Ether{}), "IP4": reflect.TypeOf(packet.IP4{}), "IP6": reflect.TypeOf(packet.IP6{}),
	"UDP": reflect.TypeOf(packet.UDP{}), "TCP": reflect.TypeOf(packet.TCP{}), "ARP": reflect.TypeOf(packet.ARP{}),
	"ICMP": reflect.TypeOf(packet.ICMP{}), "ICMPEcho": reflect.TypeOf(packet.ICMPEcho{}),
	"ICMP4Redirect": reflect.TypeOf(packet.ICMP4Redirect{}), "ICMP6RouterSolicitation": reflect.TypeOf(packet.ICMP6RouterSolicitation{}),
	"ICMP6RouterAdvertisement": reflect.TypeOf(packet.ICMP6RouterAdvertisement{}), "ICMP6NeighborAdvertisement": reflect.TypeOf(packet.ICMP6NeighborAdvertisement{}),
	"ICMP6NeighborSolicitation": reflect.TypeOf(packet.ICMP6NeighborSolicitation{}), "ICMP6Redirect": reflect.TypeOf(packet.ICMP6Redirect{}),
	"DHCP4": reflect.TypeOf(packet.DHCP4{}), "DNS": reflect.TypeOf(packet.DNS{}), "LLC": reflect.TypeOf(packet.LLC{}),
	"SNAP": reflect.TypeOf(packet.SNAP{}), "RRCP": reflect.TypeOf(packet.RRCP{}), "LLDP": reflect.TypeOf(packet.LLDP{}),
	"IEEE1905": reflect.TypeOf(packet.IEEE1905{}), "EthernetPause": reflect.TypeOf(packet.EthernetPause{}),
	"HopByHopExtensionHeader": reflect.TypeOf(packet.HopByHopExtensionHeader{}),
}

// minimum valid length per view (generator boundaries; the model has its own copy and Tie B regenerates it)
var viewMin = map[string]int{"Ether": 14, "IP4": 20, "IP6": 40, "UDP": 8, "TCP": 20, "ARP": 28, "ICMP": 8, "ICMPEcho": 8,
	"ICMP4Redirect": 8, "ICMP6RouterSolicitation": 8, "ICMP6RouterAdvertisement": 16, "ICMP6NeighborAdvertisement": 24,
	"ICMP6NeighborSolicitation": 24, "ICMP6Redirect": 40, "DHCP4": 240, "DNS": 12, "LLC": 3, "SNAP": 9, "RRCP": 16, "LLDP": 6,
	"IEEE1905": 8, "EthernetPause": 46, "HopByHopExtensionHeader": 2}

// methods whose value is not modelled in Model/Views (their behaviour is covered elsewhere:
// String/FastLog by C20, option parsers by C08): only "no panic" is checked here.
var opaque = map[string]bool{"String": true, "Options@ICMP6RouterSolicitation": true, "Options@ICMP6RouterAdvertisement": true,
	"ParseOptions": true, "ParseHopByHopExtensions": true, "CalculateChecksum": true}

func ViewNames() []string {
	var n []string
	for k := range viewTypes {
		n = append(n, k)
	}
	sort.Strings(n)
	return n
}

// Getters lists the zero-argument methods of a view type (except IsValid), by reflection.
func Getters(view string) []string {
	t := viewTypes[view]
	var out []string
	for i := 0; i < t.NumMethod(); i++ {
		m := t.Method(i)
		if m.Type.NumIn() == 1 && m.Name != "IsValid" {
			out = append(out, m.Name)
		}
	}
	return out
}

func mkView(view string, b []byte) reflect.Value {
	v := reflect.New(viewTypes[view]).Elem()
	v.SetBytes(b)
	return v
}

func SpanOf(base []byte, s []byte) string { return spanOf(base, s) }

func spanOf(base []byte, s []byte) string {
	if s == nil {
		return "nil"
	}
	bp := uintptr(unsafe.Pointer(unsafe.SliceData(base)))
	sp := uintptr(unsafe.Pointer(unsafe.SliceData(s)))
	if cap(s) == 0 && sp == bp {
		// Go never lets a slice point one past its allocation: a re-slice with zero remaining
		// capacity keeps the base pointer. Such a slice sits at the end of the backing array.
		sp = bp + uintptr(cap(base))
	}
	if sp >= bp && sp <= bp+uintptr(cap(base)) && cap(base) > 0 {
		off := int(sp - bp)
		n := len(s)
		if off+n > len(base) { // reaches into spare capacity (Ether.Payload on an empty payload): clip to the view
			n = len(base) - off
			if n < 0 {
				return fmt.Sprintf("outside %d %d", off, len(s))
			}
		}
		return fmt.Sprintf("span %d %d", off, n)
	}
	return "copy " + core.Hex(s)
}

func valOf(base []byte, r reflect.Value) string {
	switch x := r.Interface().(type) {
	case netip.Addr:
		return "ip " + core.Hex(x.AsSlice())
	case []net.IP:
		var parts []string
		for _, ip := range x {
			f := strings.Fields(spanOf(base, ip))
			if len(f) == 3 && f[0] == "span" {
				parts = append(parts, f[1]+":"+f[2])
			} else {
				parts = append(parts, "?"+strings.Join(f, "_"))
			}
		}
		return "spans " + strings.Join(parts, ",")
	case string:
		return "s " + x
	case bool:
		return "b " + strconv.FormatBool(x)
	}
	switch r.Kind() {
	case reflect.Uint8, reflect.Uint16, reflect.Uint32, reflect.Uint64, reflect.Uint:
		return fmt.Sprintf("n %d", r.Uint())
	case reflect.Int, reflect.Int32, reflect.Int64, reflect.Int16, reflect.Int8:
		return fmt.Sprintf("n %d", r.Int())
	case reflect.Slice:
		if r.Type().Elem().Kind() == reflect.Uint8 {
			if r.IsNil() {
				return "nil"
			}
			return spanOf(base, r.Bytes())
		}
	}
	return "opaque"
}

func tight(b []byte) []byte {
	t := make([]byte, len(b), len(b))
	copy(t, b)
	return t
}

func evalValid(view string, b []byte) string {
	buf := tight(b)
	return core.Safely(func() string {
		out := mkView(view, buf).MethodByName("IsValid").Call(nil)
		switch x := out[0].Interface().(type) {
		case bool: // HopByHopExtensionHeader
			if x {
				return "ok"
			}
			return "err ErrFrameLen"
		case error:
			return "err " + ErrName(x)
		case nil:
			return "ok"
		}
		return "ok"
	})
}

var hung = map[string]bool{}

var icmpBroken bool
var icmpHangs int

func evalGet(view, method string, b []byte) string {
	buf := tight(b)
	run := core.Safely
	if opaque[method] || opaque[method+"@"+view] { // parsers with loops: guard against non-termination (C08's concern)
		if hung[view+"."+method] {
			return "hang"
		}
		run = func(f func() string) string {
			r := core.WithTimeout(2*time.Second, f)
			if r == "hang" {
				hung[view+"."+method] = true
			}
			return r
		}
	}
	return run(func() string {
		out := mkView(view, buf).MethodByName(method).Call(nil)
		if len(out) == 0 {
			return "ok opaque"
		}
		return "ok " + valOf(buf, out[0])
	})
}

// ---------------------------------------------------------------------------------------------
// Parse

type cfg struct {
	hostMAC, routerMAC, lanAddr []byte
	lanBits                     int
}

func (c cfg) key() string {
	return fmt.Sprintf("%s %s %s %d", core.Hex(c.hostMAC), core.Hex(c.routerMAC), core.Hex(c.lanAddr), c.lanBits)
}

var sessions = map[string]*packet.Session{}

func sessionFor(c cfg) *packet.Session {
	k := c.key()
	if s, ok := sessions[k]; ok {
		return s
	}
	nic := sess.DefaultNIC()
	nic.HostAddr4.MAC = net.HardwareAddr(c.hostMAC)
	nic.RouterAddr4.MAC = net.HardwareAddr(c.routerMAC)
	if len(c.lanAddr) == 4 {
		nic.HomeLAN4 = netip.PrefixFrom(netip.AddrFrom4(*(*[4]byte)(c.lanAddr)), c.lanBits)
		h := append([]byte{}, c.lanAddr...)
		h[3] |= 129
		nic.HostAddr4.IP = netip.AddrFrom4(*(*[4]byte)(h))
		h[3] = (h[3] &^ 129) | 11
		nic.RouterAddr4.IP = netip.AddrFrom4(*(*[4]byte)(h))
	}
	s, _ := sess.New(nic)
	sessions[k] = s
	return s
}

func accStr(buf []byte, name string, f func() []byte) string {
	return name + "=" + strings.ReplaceAll(core.Safely(func() string { return "ok " + spanOf(buf, f()) }), " ", "_")
}

func offOf(buf []byte, v []byte) int {
	if v == nil {
		return 0
	}
	if cap(v) == 0 && unsafe.SliceData(v) == unsafe.SliceData(buf) {
		return cap(buf) // see spanOf
	}
	return int(uintptr(unsafe.Pointer(unsafe.SliceData(v))) - uintptr(unsafe.Pointer(unsafe.SliceData(buf))))
}

// evalParse runs the real Session.Parse on a buffer with `spare` poisoned bytes of extra capacity.
func evalParse(c cfg, spare int, b []byte, stale ...byte) (impl string, fr packet.Frame, perr error, buf []byte) {
	s := sessionFor(c)
	if len(stale) > 0 {
		spare = len(stale)
	}
	full := make([]byte, len(b)+spare)
	copy(full, b)
	for i := len(b); i < len(full); i++ {
		full[i] = 0xa5 ^ byte(i*7)
	}
	copy(full[len(b):], stale) // spare capacity holding the tail of an earlier, longer packet
	buf = full[:len(b)]
	// echo replies: parse them while a ping with that identifier is pending, and twice (a duplicate reply
	// must not disturb Parse) — the waiter table is process-global state Parse touches
	echoID := -1
	if len(b) >= 42 && b[12] == 8 && b[13] == 0 && b[14]&0x0f == 5 && b[23] == 1 && b[34] == 0 {
		echoID = int(b[38])<<8 | int(b[39])
	} else if len(b) >= 62 && b[12] == 0x86 && b[13] == 0xdd && b[20] == 58 && b[54] == 129 {
		echoID = int(b[58])<<8 | int(b[59])
	}
	if echoID >= 0 && icmpBroken {
		// an earlier echo reply panicked or hung inside the process-global waiter table (already reported): the
		// table's mutex may be held for good, and every further echo reply would block this process; not evaluated
		return "not-evaluated", fr, perr, buf
	}
	if echoID >= 0 && !icmpBroken {
		r := core.WithTimeout(3*time.Second, func() string {
			packet.VerifICMPProbe([]uint16{uint16(echoID)}, func() {
				s.Parse(buf)
				s.Parse(buf)
			})
			return "ok"
		})
		if r != "ok" {
			icmpBroken = true // a panic inside the locked waiter table leaves it locked for good
			return r, fr, perr, buf
		}
	}
	if icmpBroken {
		// the waiter table's mutex may be held for good: any frame that reaches echoNotify would block this process.
		// Probe the call under a watchdog first (a few witnesses, then the remaining parse lines are not evaluated).
		if icmpHangs >= 3 {
			return "not-evaluated", fr, perr, buf
		}
		if r := core.WithTimeout(300*time.Millisecond, func() string { s.Parse(append([]byte{}, buf...)); return "ok" }); r == "hang" {
			icmpHangs++
			return "hang", fr, perr, buf
		}
	}
	impl = core.Safely(func() string {
		fr, perr = s.Parse(buf)
		f := fr
		hostEv := "-"
		if f.Host != nil {
			hostEv = core.Hex(f.Host.MACEntry.MAC) + "/" + core.Hex(f.Host.Addr.IP.AsSlice())
		}
		off := func(g func() []byte) (o int) {
			defer func() {
				if recover() != nil {
					o = -1
				}
			}()
			return offOf(buf, g())
		}
		str := fmt.Sprintf("pid=%d ip4=%d ip6=%d udp=%d tcp=%d pay=%d smac=%s dmac=%s sip=%s dip=%s sport=%d dport=%d host=%s",
			int(f.PayloadID), off(func() []byte { return f.IP4() }), off(func() []byte { return f.IP6() }),
			off(func() []byte { return f.UDP() }), off(func() []byte { return f.TCP() }), off(func() []byte { return f.Payload() }),
			core.Hex(f.SrcAddr.MAC), core.Hex(f.DstAddr.MAC), core.Hex(f.SrcAddr.IP.AsSlice()), core.Hex(f.DstAddr.IP.AsSlice()),
			f.SrcAddr.Port, f.DstAddr.Port, hostEv)
		str += " err=" + ErrName(perr)
		if perr == nil {
			str += " acc: " + strings.Join([]string{
				accStr(buf, "Ether", func() []byte { return f.Ether() }),
				"HasIP=ok_b_" + strconv.FormatBool(f.HasIP()),
				accStr(buf, "IP4", func() []byte { return f.IP4() }), accStr(buf, "IP6", func() []byte { return f.IP6() }),
				accStr(buf, "UDP", func() []byte { return f.UDP() }), accStr(buf, "TCP", func() []byte { return f.TCP() }),
				accStr(buf, "Payload", func() []byte { return f.Payload() })}, " ")
		} else {
			str += " acc: -"
		}
		return str
	})
	return
}

var echoRE = " echo="

// dropEcho removes the `echo=` field (echoNotify is not observable from outside; C19 covers it).
func dropEcho(s string) string {
	i := strings.Index(s, echoRE)
	if i < 0 {
		return s
	}
	j := strings.Index(s[i+1:], " ")
	if j < 0 {
		return s[:i]
	}
	return s[:i] + s[i+1+j:]
}

// specFields projects a canonical frame string onto the fields the reference decoder defines.
func specFields(s string) string {
	if i := strings.Index(s, " acc:"); i >= 0 {
		s = s[:i]
	}
	s = dropEcho(s)
	// error presence only
	if i := strings.Index(s, " err="); i >= 0 {
		e := s[i+5:]
		if e == "-" || e == "false" {
			s = s[:i] + " err=false"
		} else {
			s = s[:i] + " err=true"
		}
	}
	return s
}

// ---------------------------------------------------------------------------------------------

func parseCfg(f []string) (cfg, bool) {
	if len(f) < 4 {
		return cfg{}, false
	}
	bits, err := strconv.Atoi(f[3])
	if err != nil {
		return cfg{}, false
	}
	return cfg{core.UnHex(f[0]), core.UnHex(f[1]), core.UnHex(f[2]), bits}, true
}

// Eval: protocol lines
//
//	valid <View> <hex>
//	get <View> <Method> <hex>            (only meaningful when IsValid()==nil; called regardless)
//	parse <hostmac> <routermac> <lan> <bits> <spare> <hex>
//	netip <pred> <hexip> | netip contains <lanhex> <bits> <hexip>
func Eval(c *core.Ctx, line string) *core.Case {
	f := strings.Fields(line)
	if len(f) < 2 {
		return nil
	}
	// the session logger is at debug level for lines of even length (a function of the line, so a replay reproduces
	// it) and at its default level for the others: at debug level every log line of Parse and of the host tables is
	// formatted (output discarded), so a panicking log call is a Parse panic; the result must not depend on the level
	if len(line)%2 == 0 {
		packet.Logger.SetLevel(fastlog.LevelDebug)
	} else {
		packet.Logger.SetLevel(fastlog.LevelInfo)
	}
	switch f[0] {
	case "valid":
		if len(f) != 3 || viewTypes[f[1]] == nil {
			return nil
		}
		b := core.UnHex(f[2])
		impl := evalValid(f[1], b)
		return &core.Case{Line: line, Impl: impl, Trivial: len(b) < viewMin[f[1]],
			Oracle: func() (string, string) {
				if impl == "panic" {
					return f[1] + ".IsValid() panicked", ""
				}
				return "", ""
			}}
	case "get":
		if len(f) != 4 || viewTypes[f[1]] == nil {
			return nil
		}
		view, method := f[1], f[2]
		b := core.UnHex(f[3])
		valid := evalValid(view, b)
		impl := evalGet(view, method, b)
		isOpaque := opaque[method] || opaque[method+"@"+view]
		cs := &core.Case{Line: line, Impl: impl, Trivial: valid != "ok",
			Oracle: func() (string, string) {
				if valid != "ok" {
					return "", ""
				}
				if impl == "panic" {
					return fmt.Sprintf("%s.%s() panics although IsValid()==nil", view, method), ""
				}
				if strings.Contains(impl, "outside") {
					return fmt.Sprintf("%s.%s() returns a slice outside the view: %s", view, method, impl), ""
				}
				return "", ""
			}}
		if valid != "ok" {
			cs.Cmp = func(a, b string) bool { return true } // getters of an invalid view are unspecified
		} else if isOpaque {
			cs.Cmp = func(a, b string) bool { return b == "unknown-getter" }
		} else {
			// For a valid view the model's getter table (Model/Views.lean, reviewed against the RFC layouts and
			// compared term by term with the Go getter bodies by Props/C02GetterTie) is the reference decoder of
			// C02: a getter value that differs from it is a concrete failing input, not just a broken tie.
			cs.OracleR = func(reply string) (string, string) {
				if reply == impl || reply == "unknown-getter" || impl == "panic" || strings.HasPrefix(reply, "bad") {
					return "", ""
				}
				return fmt.Sprintf("%s.%s() of a valid view returns %s; the field at its RFC position (reference table) is %s", view, method, impl, reply), ""
			}
		}
		return cs
	case "parse":
		if len(f) != 7 {
			return nil
		}
		cf, ok := parseCfg(f[1:5])
		var stale []byte
		spare, err := 0, error(nil)
		if strings.HasPrefix(f[5], "x") { // x<hex>: explicit stale bytes in the spare capacity
			stale = core.UnHex(f[5][1:])
			spare = len(stale)
		} else {
			spare, err = strconv.Atoi(f[5])
		}
		if !ok || err != nil {
			return nil
		}
		b := core.UnHex(f[6])
		impl, _, _, _ := evalParse(cf, spare, b, stale...)
		if impl == "not-evaluated" {
			return nil
		}
		// the model is a function of the bytes within the length: it is sent the same line (spare ignored)
		mline := "parse " + strings.Join(f[1:5], " ") + " " + f[6]
		cs := &core.Case{Line: mline, Impl: impl, Trivial: len(b) < 14}
		cs.Cmp = func(impl, reply string) bool {
			m := reply
			if i := strings.Index(reply, " | spec: "); i >= 0 {
				m = reply[:i]
			}
			return impl == dropEcho(m)
		}
		cs.OracleR = func(reply string) (string, string) {
			if impl == "panic" || impl == "hang" {
				return "Session.Parse " + impl + "s (echo reply parsed twice while a ping with its identifier is pending)", ""
			}
			if strings.Contains(impl, "=panic") {
				return "a Frame accessor panicked after Parse returned nil error: " + impl, ""
			}
			if strings.Contains(impl, "outside") {
				return "a Frame accessor returned a slice outside the input: " + impl, ""
			}
			if c.Prop == "C16" { // views must sit at the offsets the reference decoder computes
				if i := strings.Index(reply, " | spec: "); i >= 0 {
					off := func(s string) string {
						var o []string
						for _, f := range strings.Fields(s) {
							for _, k := range []string{"ip4=", "ip6=", "udp=", "tcp=", "pay="} {
								if strings.HasPrefix(f, k) {
									o = append(o, f)
								}
							}
						}
						return strings.Join(o, " ")
					}
					if sp, im := off(reply[i+9:]), off(impl); sp != im && !strings.Contains(impl, "err=Err") {
						return "a view returned by Parse does not alias the buffer at the decoded offset:\n  parse: " + im + "\n  spec : " + sp, ""
					}
				}
			}
			if c.Prop == "C02" {
				if i := strings.Index(reply, " | spec: "); i >= 0 {
					sp := specFields(reply[i+9:])
					im := specFields(impl)
					if sp != im {
						return "Parse differs from the reference decoder:\n  parse: " + im + "\n  spec : " + sp, ""
					}
				}
			}
			return "", ""
		}
		// C01: result must not depend on spare capacity — re-run with a different poison/capacity
		if spare > 0 {
			impl0, _, _, _ := evalParse(cf, 0, b)
			if impl0 != impl && impl0 != "not-evaluated" {
				cs.Oracle = func() (string, string) {
					return "Parse result depends on spare capacity:\n  cap=len : " + impl0 + "\n  cap=len+" + f[5] + ": " + impl, ""
				}
			}
		}
		return cs
	case "netip":
		return evalNetip(line, f)
	case "allocs":
		return evalAllocs(c, line, f)
	case "allocs.round":
		return evalAllocsRound(c, line, f)
	}
	return nil
}

// allocs.round <cfg…> <hex>,<hex>,… : heap allocations of one ROUND of frames, each from an already tracked source,
// parsed one after the other again and again (C16; measurement).  Several addresses of one station alternating is the
// ordinary dual-stack case: link-local + global + ULA + IPv4 on one MAC.  The model has no allocator: oracle only.
func evalAllocsRound(c *core.Ctx, line string, f []string) *core.Case {
	if len(f) != 6 {
		return nil
	}
	cf, ok := parseCfg(f[1:5])
	if !ok {
		return nil
	}
	var bufs [][]byte
	for _, h := range strings.Split(f[5], ",") {
		bufs = append(bufs, tight(core.UnHex(h)))
	}
	s := sessionFor(cf)
	for k := 0; k < 2; k++ { // two warm-up rounds: every source is tracked and online afterwards
		for _, b := range bufs {
			if _, err := s.Parse(b); err != nil {
				return nil
			}
		}
	}
	n := testing.AllocsPerRun(30, func() {
		for _, b := range bufs {
			s.Parse(b)
		}
	})
	online := true
	for _, b := range bufs {
		if fr, err := s.Parse(b); err != nil || fr.Host == nil || !fr.Host.Online {
			online = false
		}
	}
	impl := fmt.Sprintf("n %d online %v", int(n), online)
	return &core.Case{Line: line, Impl: impl, Cmp: func(string, string) bool { return true },
		Oracle: func() (string, string) {
			if n != 0 {
				return fmt.Sprintf("Session.Parse allocates (%v allocs per round of %d frames) on well-formed frames from already tracked sources that alternate", n, len(bufs)), ""
			}
			if !online {
				return "a tracked source that has just been seen is not online after alternating frames of one station's addresses", ""
			}
			return "", ""
		}}
}

func evalNetip(line string, f []string) *core.Case {
	toAddr := func(h string) netip.Addr {
		b := core.UnHex(h)
		switch len(b) {
		case 4:
			return netip.AddrFrom4(*(*[4]byte)(b))
		case 16:
			return netip.AddrFrom16(*(*[16]byte)(b))
		}
		return netip.Addr{}
	}
	if f[1] == "contains" && len(f) == 5 {
		bits, _ := strconv.Atoi(f[3])
		p := netip.PrefixFrom(toAddr(f[2]), bits)
		return &core.Case{Line: line, Impl: strconv.FormatBool(p.Contains(toAddr(f[4])))}
	}
	if len(f) != 3 {
		return nil
	}
	a := toAddr(f[2])
	var r bool
	switch f[1] {
	case "isLinkLocalUnicast":
		r = a.IsLinkLocalUnicast()
	case "isGlobalUnicast":
		r = a.IsGlobalUnicast()
	case "isMulticast":
		r = a.IsMulticast()
	case "isLoopback":
		r = a.IsLoopback()
	case "isUnspecified":
		r = a.IsUnspecified()
	case "isLinkLocalMulticast":
		r = a.IsLinkLocalMulticast()
	case "is4in6":
		r = a.Is4In6()
	default:
		return nil
	}
	return &core.Case{Line: line, Impl: strconv.FormatBool(r)}
}

// allocs <cfg…> <hex> : heap allocations of Session.Parse on an already-seen frame (C16; measurement)
func evalAllocs(c *core.Ctx, line string, f []string) *core.Case {
	if len(f) != 6 {
		return nil
	}
	cf, ok := parseCfg(f[1:5])
	if !ok {
		return nil
	}
	b := core.UnHex(f[5])
	s := sessionFor(cf)
	buf := tight(b)
	if _, err := s.Parse(buf); err != nil {
		return nil
	}
	n := testing.AllocsPerRun(50, func() { s.Parse(buf) })
	impl := fmt.Sprintf("n %d", int(n))
	return &core.Case{Line: line, Impl: impl,
		Oracle: func() (string, string) {
			if n != 0 {
				return fmt.Sprintf("Session.Parse allocates (%v allocs/op) on a well-formed frame from an already tracked source", n), ""
			}
			return "", ""
		}}
}

// ---------------------------------------------------------------------------------------------
// generators

var (
	hostMAC   = []byte{2, 0, 0, 0, 0, 1}
	routerMAC = []byte{2, 0, 0, 0, 0, 0x11}
	cfgs      = []cfg{
		{hostMAC, routerMAC, []byte{192, 168, 0, 0}, 24},
		{hostMAC, routerMAC, []byte{10, 1, 0, 0}, 16},
		{hostMAC, routerMAC, []byte{192, 168, 1, 128}, 25},
	}
	clientMACs = [][]byte{{2, 0, 0, 0, 0, 5}, {2, 0, 0, 0, 0, 6}, {0xf0, 0x18, 0x98, 1, 2, 3}}
	mcastMAC   = []byte{0x01, 0, 0x5e, 0, 0, 0xfb}
	bcast      = []byte{0xff, 0xff, 0xff, 0xff, 0xff, 0xff}
)

func srcMACs() [][]byte {
	return [][]byte{clientMACs[0], clientMACs[1], clientMACs[2], hostMAC, routerMAC, mcastMAC, bcast, {0x33, 0x33, 0, 0, 0, 1}}
}

func ip4s(c *core.Ctx, cf cfg) [][]byte {
	on := append([]byte{}, cf.lanAddr...)
	on[3] |= byte(1 + c.Rnd.Intn(100))
	on2 := append([]byte{}, cf.lanAddr...)
	on2[3] |= 0x7f
	return [][]byte{on, on2, {8, 8, 8, 8}, {0, 0, 0, 0}, {255, 255, 255, 255}, {169, 254, 1, 1}, {224, 0, 0, 251}, cf.lanAddr, c.RandBytes(4)}
}

func ip6s(c *core.Ctx) [][]byte {
	lla := append([]byte{0xfe, 0x80, 0, 0, 0, 0, 0, 0}, c.RandBytes(8)...)
	gua := append([]byte{0x20, 0x01, 0x0d, 0xb8}, c.RandBytes(12)...)
	ula := append([]byte{0xfd, 0x00}, c.RandBytes(14)...)
	return [][]byte{lla, gua, ula, make([]byte, 16), {0, 0, 0, 0, 0, 0, 0, 0, 0, 0, 0, 0, 0, 0, 0, 1},
		{0xff, 2, 0, 0, 0, 0, 0, 0, 0, 0, 0, 0, 0, 0, 0, 1}, {0, 0, 0, 0, 0, 0, 0, 0, 0, 0, 0xff, 0xff, 192, 168, 0, 5},
		{0xfe, 0xbf, 0, 0, 0, 0, 0, 0, 0, 0, 0, 0, 0, 0, 0, 9}, {0xfe, 0xc0, 0, 0, 0, 0, 0, 0, 0, 0, 0, 0, 0, 0, 0, 9}, c.RandBytes(16)}
}

func pick(c *core.Ctx, xs [][]byte) []byte { return xs[c.Rnd.Intn(len(xs))] }

// transport builds a transport payload for protocol proto.
func transport(c *core.Ctx, proto int) []byte {
	r := c.Rnd
	data := c.RandBytes(r.Intn(40))
	switch proto {
	case 17:
		return frames.UDP(frames.Pick(r, frames.Ports), frames.Pick(r, frames.Ports), -1, data)
	case 6:
		doff := 5
		if r.Intn(3) == 0 {
			doff = r.Intn(16)
		}
		return frames.TCP(frames.Pick(r, frames.Ports), r.Intn(65536), doff, byte(r.Intn(256)), data, r.Intn(16)*r.Intn(2))
	case 1:
		return frames.ICMP([]int{0, 8, 3, 5, 11}[r.Intn(5)], 0, r.Intn(65536), r.Intn(10), data)
	case 58:
		return frames.ICMP([]int{129, 128, 133, 134, 135, 136, 137}[r.Intn(7)], 0, r.Intn(65536), r.Intn(10), data)
	}
	return data
}

// structured returns one mostly-valid frame.
func structured(c *core.Ctx, cf cfg) []byte {
	r := c.Rnd
	src := pick(c, srcMACs())
	dst := pick(c, [][]byte{hostMAC, routerMAC, bcast, mcastMAC, clientMACs[0]})
	vlan := 0
	if r.Intn(12) == 0 {
		vlan = 1 + r.Intn(2)
	}
	var fr []byte
	switch k := r.Intn(10); {
	case k < 4: // IPv4
		proto := frames.Pick(r, frames.Protos)
		o := frames.IP4Opts{TotalLen: -1, Proto: proto, Src: pick(c, ip4s(c, cf)), Dst: pick(c, ip4s(c, cf)), TTL: 64, Frag: []int{0, 0, 0x4000, 0x2000, 0x1fff, 0x00b9, 0x3fff}[r.Intn(7)]}
		if r.Intn(6) == 0 {
			o.Options = c.RandBytes(4 * (1 + r.Intn(3)))
		}
		fr = frames.Ether(dst, src, 0x0800, 0, frames.IP4(o, transport(c, proto)))
	case k < 7: // IPv6
		proto := frames.Pick(r, frames.Protos)
		fr = frames.Ether(dst, src, 0x86dd, 0, frames.IP6(frames.IP6Opts{PayloadLen: -1, Next: proto, Hop: 255, Src: pick(c, ip6s(c)), Dst: pick(c, ip6s(c))}, transport(c, proto)))
	case k < 9: // ARP
		hl := 6
		if r.Intn(8) == 0 {
			hl = r.Intn(256)
		}
		fr = frames.Ether(dst, src, 0x0806, 0, frames.ARP(1+r.Intn(2), hl, 4, pick(c, srcMACs()), pick(c, ip4s(c, cf)), bcast, pick(c, ip4s(c, cf))))
	default:
		fr = frames.Ether(dst, src, frames.Pick(r, frames.EtherTypes), vlan, c.RandBytes(r.Intn(64)))
	}
	if r.Intn(5) == 0 { // trailing padding
		fr = append(fr, make([]byte, r.Intn(20))...)
	}
	return fr
}

// mutate applies one length/field corruption.
func mutate(c *core.Ctx, fr []byte) []byte {
	r := c.Rnd
	b := append([]byte{}, fr...)
	if len(b) == 0 {
		return b
	}
	switch r.Intn(6) {
	case 0:
		return b[:r.Intn(len(b)+1)]
	case 1:
		b[r.Intn(len(b))] ^= byte(1 << r.Intn(8))
	case 2:
		if len(b) > 14 {
			b[14] = byte(0x40 | r.Intn(16)) // IHL
		}
	case 3:
		if len(b) > 18 {
			b[16+r.Intn(2)] = byte(r.Intn(256)) // IPv4 total length
		}
	case 4:
		if len(b) > 20 {
			b[18+r.Intn(2)] = byte(r.Intn(256)) // IPv6 payload length
		}
	case 5:
		b = append(b, c.RandBytes(1+r.Intn(8))...)
	}
	return b
}

func parseLine(cf cfg, spare int, b []byte) string {
	return fmt.Sprintf("parse %s %d %s", cf.key(), spare, core.Hex(b))
}

func add(c *core.Ctx, class, line string) {
	if cs := Eval(c, line); cs != nil {
		cs.Class = class
		c.Add(*cs)
	}
}

func genParse(c *core.Ctx) {
	r := c.Rnd
	spares := []int{0, 0, 0, 1, 7, 64}
	// every length 0..80 for every EtherType class (exhaustive lengths, random content + structured prefixes)
	for _, et := range frames.EtherTypes {
		for n := 0; n <= 80; n++ {
			cf := cfgs[r.Intn(len(cfgs))]
			base := structured(c, cf)
			if len(base) >= 14 {
				base[12], base[13] = byte(et>>8), byte(et)
			}
			for len(base) < n {
				base = append(base, byte(r.Intn(256)))
			}
			add(c, "len-sweep", parseLine(cf, spares[r.Intn(len(spares))], base[:n]))
		}
	}
	// structured frames, their truncations at every offset, and mutants
	for k := 0; k < c.Scale(1500, 60000); k++ {
		cf := cfgs[r.Intn(len(cfgs))]
		fr := structured(c, cf)
		add(c, "structured", parseLine(cf, spares[r.Intn(len(spares))], fr))
		if k%10 == 0 {
			for n := 0; n <= len(fr); n++ {
				add(c, "truncation", parseLine(cf, 0, fr[:n]))
				if n < len(fr) && (n <= 60 || n%7 == 0) { // the rest of the frame left over in the spare capacity (reused receive buffer)
					add(c, "truncation-stale", fmt.Sprintf("parse %s x%s %s", cf.key(), core.Hex(fr[n:]), core.Hex(fr[:n])))
				}
			}
		}
		for m := 0; m < 3; m++ {
			add(c, "mutant", parseLine(cf, spares[r.Intn(len(spares))], mutate(c, fr)))
		}
	}
	// every UDP port pair of the table in both directions (precedence overlaps), v4 and v6
	for _, sp := range frames.Ports {
		for _, dp := range frames.Ports {
			cf := cfgs[0]
			u := frames.UDP(sp, dp, -1, c.RandBytes(4))
			add(c, "ports", parseLine(cf, 0, frames.Ether(hostMAC, clientMACs[0], 0x0800, 0, frames.IP4(frames.IP4Opts{TotalLen: -1, Proto: 17, Src: []byte{192, 168, 0, 5}, Dst: []byte{192, 168, 0, 1}, TTL: 1}, u))))
			add(c, "ports", parseLine(cf, 0, frames.Ether(hostMAC, clientMACs[1], 0x86dd, 0, frames.IP6(frames.IP6Opts{PayloadLen: -1, Next: 17, Src: ip6s(c)[0], Dst: ip6s(c)[1]}, u))))
		}
	}
	// pure random
	for k := 0; k < c.Scale(2000, 100000); k++ {
		n := r.Intn(100)
		if r.Intn(10) == 0 {
			n = r.Intn(1600)
		}
		add(c, "random", parseLine(cfgs[r.Intn(len(cfgs))], spares[r.Intn(len(spares))], c.RandBytes(n)))
	}
}

func genViews(c *core.Ctx) {
	r := c.Rnd
	for _, view := range ViewNames() {
		min := viewMin[view]
		getters := Getters(view)
		c.Res.Extra["getters_"+view] = len(getters)
		var inputs [][]byte
		for _, n := range []int{0, 1, min - 1, min, min + 1, min + 2, min + 7, min + 40} {
			if n < 0 {
				continue
			}
			for k := 0; k < c.Scale(6, 60); k++ {
				inputs = append(inputs, shapeView(c, view, c.RandBytes(n)))
			}
		}
		for k := 0; k < c.Scale(60, 3000); k++ {
			inputs = append(inputs, shapeView(c, view, c.RandBytes(min+r.Intn(80))))
		}
		if view == "ICMP6RouterAdvertisement" || view == "ICMP6RouterSolicitation" {
			// the Options() accessor: well-formed and mutated NDP option lists behind the fixed part
			fixed := 16
			if view == "ICMP6RouterSolicitation" {
				fixed = 24 // RS.Options() starts at byte 24
			}
			for k := 0; k < c.Scale(400, 20000); k++ {
				opts := ndpgen.RandOptions(r, 5)
				if r.Intn(3) == 0 {
					opts = ndpgen.Mutate(r, opts)
				}
				if k%10 == 0 {
					// DNSSL whose last label ends exactly on the option's last byte (no terminator, no padding)
					units := 2 + r.Intn(3)
					body := make([]byte, 0, units*8)
					body = append(body, 31, byte(units), 0, 0, 0, 0, 0, byte(r.Intn(256)))
					room := units*8 - 8
					for room > 0 {
						l := 1 + r.Intn(room)
						if room-l == 1 { // cannot leave a single byte: take it all
							l = room
						}
						l--
						body = append(body, byte(l))
						body = append(body, []byte("abcdefghijklmnopqrstuvwxyz")[:l]...)
						room -= l + 1
					}
					opts = append(opts, body...)
				}
				b := append(c.RandBytes(fixed), opts...)
				if view == "ICMP6RouterSolicitation" {
					b[0] = 133
				}
				inputs = append(inputs, b)
			}
			// every option type x size x inner-length threshold, as the last option and followed by another one
			for _, opts := range ndpgen.Boundary(r) {
				b := append(c.RandBytes(fixed), opts...)
				if view == "ICMP6RouterSolicitation" {
					b[0] = 133
				}
				inputs = append(inputs, b)
			}
		}
		if view == "IP6" {
			// RFC 8200 packets whose 16-bit payload length makes PayloadLen+40 pass 65535: the length test of
			// IsValid must not be computed in uint16 (found by the IsValid translator, C01ValidTie.ip6_tie)
			for _, pl := range []int{65495, 65496, 65535} {
				b := make([]byte, 40+pl)
				b[0], b[4], b[5], b[6], b[7] = 0x60, byte(pl>>8), byte(pl), 59, 64
				inputs = append(inputs, b)
			}
		}
		for _, in := range inputs {
			h := core.Hex(in)
			add(c, "valid-"+view, "valid "+view+" "+h)
			if evalValid(view, in) == "ok" {
				for _, g := range getters {
					add(c, "get-"+view, "get "+view+" "+g+" "+h)
				}
			}
		}
	}
}

// shapeView nudges random bytes so that IsValid() mostly succeeds and length fields sit at boundaries.
func shapeView(c *core.Ctx, view string, b []byte) []byte {
	r := c.Rnd
	if r.Intn(5) == 0 {
		return b
	}
	n := len(b)
	set := func(i int, v byte) {
		if i < n {
			b[i] = v
		}
	}
	switch view {
	case "Ether":
		et := frames.Pick(r, frames.EtherTypes)
		set(12, byte(et>>8))
		set(13, byte(et))
	case "IP4":
		ihl := []int{5, 5, 5, 6, 15, 4, 0}[r.Intn(7)]
		set(0, byte(0x40|ihl))
		tl := n - r.Intn(3) + r.Intn(2)
		if r.Intn(4) == 0 {
			tl = r.Intn(n + 2)
		}
		if tl < 0 {
			tl = 0
		}
		set(2, byte(tl>>8))
		set(3, byte(tl))
	case "TCP":
		set(12, byte([]int{5, 5, 6, 15, 4, 0}[r.Intn(6)]<<4|r.Intn(16)))
	case "IP6":
		pl := n - 40 + []int{0, 0, 0, 1, -1}[r.Intn(5)]
		if pl < 0 {
			pl = 0
		}
		set(4, byte(pl>>8))
		set(5, byte(pl))
	case "ARP":
		set(0, 0)
		set(1, 1)
		set(2, 8)
		set(3, 0)
		set(4, 6)
		set(5, 4)
	case "ICMP4Redirect":
		set(0, 137)
		set(4, byte([]int{0, 1, 2, 3, 6, 25, 26, 51, 64, 128, 255}[r.Intn(11)]))
		set(5, byte([]int{4, 10, 4, 1, 10, 4}[r.Intn(6)]))
	case "ICMP6RouterSolicitation":
		set(0, 133)
		if r.Intn(2) == 0 {
			set(8, 1)
			set(9, 3)
		}
	case "ICMP6NeighborAdvertisement", "ICMP6NeighborSolicitation":
		set(24, byte(1+r.Intn(2)))
		set(25, 1)
	case "ICMP6Redirect":
		set(40, 2)
		set(41, 1)
	case "DHCP4":
		set(0, byte(1+r.Intn(2)))
		set(2, 6)
		if n > 240 { // well-formed option area: pad / tlv* / end
			i := 240
			for i < n {
				rem := n - i
				switch {
				case rem == 1 || r.Intn(6) == 0:
					b[i] = 255
					i = n
				case r.Intn(5) == 0:
					b[i] = 0
					i++
				default:
					l := r.Intn(rem - 1)
					if r.Intn(10) == 0 {
						l = rem // overruns: invalid
					}
					b[i] = byte(1 + r.Intn(80))
					b[i+1] = byte(l)
					i += 2 + l
				}
			}
		}
	case "LLC":
		set(2, byte([]int{0x03, 0x03, 0x01, 0x00, 0x13, 0xff}[r.Intn(6)]))
		if r.Intn(3) == 0 {
			set(0, 0xaa)
			set(1, 0xaa)
		}
	case "EthernetPause":
		set(0, 0)
		set(1, 1)
	case "LLDP":
		// chassis id TLV (type 1) + port id TLV (type 2) with boundary lengths
		l1 := []int{0, 1, 2, 7, n}[r.Intn(5)]
		set(0, byte(1<<1|(l1>>8)&1))
		set(1, byte(l1))
		set(2+l1, byte(2<<1))
		set(3+l1, byte([]int{0, 1, 2, 5}[r.Intn(4)]))
	case "HopByHopExtensionHeader":
		set(1, byte(r.Intn(3)))
	}
	return b
}

func genNetip(c *core.Ctx) {
	preds := []string{"isLinkLocalUnicast", "isGlobalUnicast", "isMulticast", "isLoopback", "isUnspecified", "isLinkLocalMulticast", "is4in6"}
	for k := 0; k < c.Scale(300, 5000); k++ {
		var ips [][]byte
		ips = append(ips, ip6s(c)...)
		ips = append(ips, ip4s(c, cfgs[k%len(cfgs)])...)
		ips = append(ips, []byte{127, 0, 0, 1}, []byte{})
		for _, ip := range ips {
			for _, p := range preds {
				add(c, "netip", "netip "+p+" "+core.Hex(ip))
			}
			cf := cfgs[k%len(cfgs)]
			add(c, "netip", fmt.Sprintf("netip contains %s %d %s", core.Hex(cf.lanAddr), []int{cf.lanBits, 0, 32, 8, 31}[c.Rnd.Intn(5)], core.Hex(ip)))
		}
		if k > 3 && !c.Thorough() {
			break
		}
	}
}

func genAllocs(c *core.Ctx) {
	// one well-formed frame per PayloadID class × source kind
	cf := cfgs[0]
	srcs := [][]byte{clientMACs[0], hostMAC, routerMAC, mcastMAC}
	for _, src := range srcs {
		for _, sip := range [][]byte{{192, 168, 0, 5}, {8, 8, 8, 8}} {
			for _, proto := range []int{17, 6, 1, 2} {
				tr := transport(c, proto)
				if proto == 6 {
					tr = frames.TCP(80, 5000, 5, 0x10, []byte{1, 2, 3})
				}
				add(c, "allocs", fmt.Sprintf("allocs %s %s", cf.key(), core.Hex(frames.Ether(hostMAC, src, 0x0800, 0, frames.IP4(frames.IP4Opts{TotalLen: -1, Proto: proto, Src: sip, Dst: []byte{192, 168, 0, 1}, TTL: 3}, tr)))))
			}
			for _, dp := range frames.Ports {
				u := frames.UDP(5000, dp, -1, []byte{1, 2, 3, 4})
				add(c, "allocs", fmt.Sprintf("allocs %s %s", cf.key(), core.Hex(frames.Ether(hostMAC, src, 0x0800, 0, frames.IP4(frames.IP4Opts{TotalLen: -1, Proto: 17, Src: sip, Dst: []byte{192, 168, 0, 1}, TTL: 3}, u)))))
			}
		}
		for _, sip := range [][]byte{ip6s(c)[0], ip6s(c)[1]} {
			for _, proto := range []int{17, 6, 58} {
				tr := transport(c, proto)
				if proto == 6 {
					tr = frames.TCP(80, 5000, 5, 0x10, []byte{1, 2, 3})
				}
				add(c, "allocs", fmt.Sprintf("allocs %s %s", cf.key(), core.Hex(frames.Ether(hostMAC, src, 0x86dd, 0, frames.IP6(frames.IP6Opts{PayloadLen: -1, Next: proto, Src: sip, Dst: ip6s(c)[5]}, tr)))))
			}
		}
		add(c, "allocs", fmt.Sprintf("allocs %s %s", cf.key(), core.Hex(frames.Ether(bcast, src, 0x0806, 0, frames.ARP(1, 6, 4, src, []byte{192, 168, 0, 5}, bcast, []byte{192, 168, 0, 1})))))
		for _, et := range []int{0x8808, 0x8899, 0x88cc, 0x890d, 0x893a, 0x6970, 0x880a, 0x0100} {
			add(c, "allocs", fmt.Sprintf("allocs %s %s", cf.key(), core.Hex(frames.Ether(bcast, src, et, 0, c.RandBytes(46)))))
		}
	}
	// rounds: the addresses of ONE station alternating (one IPv4, link-local, two global addresses in different /64s,
	// a second one in the first /64, a ULA); every subset of two to four of them, in two orders
	mac := clientMACs[1]
	g1 := append([]byte{0x20, 0x01, 0x0d, 0xb8, 0, 1, 0, 1}, c.RandBytes(8)...)
	g1b := append([]byte{0x20, 0x01, 0x0d, 0xb8, 0, 1, 0, 1}, c.RandBytes(8)...)
	g2 := append([]byte{0x20, 0x01, 0x0d, 0xb8, 0, 2, 0, 7}, c.RandBytes(8)...)
	ula := append([]byte{0xfd, 0x12, 0x34, 0x56, 0x78, 0x9a, 0, 1}, c.RandBytes(8)...)
	lla := append([]byte{0xfe, 0x80, 0, 0, 0, 0, 0, 0}, c.RandBytes(8)...)
	v6 := func(sip []byte) string {
		return core.Hex(frames.Ether(hostMAC, mac, 0x86dd, 0, frames.IP6(frames.IP6Opts{PayloadLen: -1, Next: 17, Src: sip, Dst: ip6s(c)[5]}, transport(c, 17))))
	}
	pool := []string{
		core.Hex(frames.Ether(hostMAC, mac, 0x0800, 0, frames.IP4(frames.IP4Opts{TotalLen: -1, Proto: 17, Src: []byte{192, 168, 0, 66}, Dst: []byte{192, 168, 0, 1}, TTL: 3}, transport(c, 17)))),
		v6(lla), v6(g1), v6(g2), v6(ula), v6(g1b),
	}
	for mask := 1; mask < 1<<len(pool); mask++ {
		var round []string
		for i := range pool {
			if mask&(1<<i) != 0 {
				round = append(round, pool[i])
			}
		}
		if len(round) < 2 || len(round) > 4 {
			continue
		}
		add(c, "allocs-round", fmt.Sprintf("allocs.round %s %s", cf.key(), strings.Join(round, ",")))
		for i, j := 0, len(round)-1; i < j; i, j = i+1, j-1 {
			round[i], round[j] = round[j], round[i]
		}
		add(c, "allocs-round", fmt.Sprintf("allocs.round %s %s", cf.key(), strings.Join(round, ",")))
	}
}

func corpus(c *core.Ctx) {
	for _, l := range c.CorpusLines() {
		add(c, "corpus", l)
	}
}

func Gen01(c *core.Ctx) {
	c.Res.Rule = "parse: every length 0..80 for every EtherType class, structured frames from an independent builder (IPv4/IPv6/ARP/other, all source-MAC and address kinds, VLAN tags, padding) with all truncations of every 10th and 3 mutants each, every UDP port pair of the table, random strings; spare capacity 0/1/7/64 poisoned (result must not change). views: for each of the 23 view types boundary lengths (min-1,min,min+1,…) and shaped random contents; every zero-argument method found by reflection is called when IsValid()==nil. distinct = distinct protocol lines; non-trivial = frame of >= 14 bytes / view that passed IsValid"
	corpus(c)
	genNetip(c)
	genParse(c)
	genViews(c)
}

func Gen02(c *core.Ctx) {
	c.Res.Rule = "as C01's parse and view generators; the oracle compares the real Parse with the Lean reference decoder Spec.decode field by field (PayloadID, MACs, IPs, ports, IPv4/IPv6/UDP/TCP/payload offsets, error presence) and getters with the model's RFC positions"
	corpus(c)
	genNetip(c)
	genParse(c)
	genViews(c)
}

func Gen16(c *core.Ctx) {
	c.Res.Rule = "views alias the buffer: every accessor's pointer offset/length is compared with the model's offsets for all generated frames (as C01); allocs: testing.AllocsPerRun(50) of Session.Parse for one well-formed frame per PayloadID class × source kind (tracked client, own MAC, router, multicast; on-LAN/off-LAN, IPv4/IPv6/ARP/L2) — measurement, predicted 0"
	corpus(c)
	genAllocs(c)
	genParse(c)
}

var Runner01 = core.Runner{Gen: Gen01, Eval: Eval}
var Runner02 = core.Runner{Gen: Gen02, Eval: Eval}
var Runner16 = core.Runner{Gen: Gen16, Eval: Eval}
