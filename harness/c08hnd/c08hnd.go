// Package c08hnd: correspondence + oracle for the handler BODIES after classification (C08): the packet loop
// (Session.Parse, drop on error, dispatch on PayloadID) + arp.ProcessPacket / Handler6.ProcessPacket (+ Close) /
// Handler4.ProcessPacket on raw frames, compared with Model/Handlers.lean on everything the call leaves behind:
// disposition and returned error of every frame, the frames written to the connection byte for byte, the
// handler mutex, and for ICMPv6 the router table, the default router, `repeat`, `closed` and the number of
// spoof-loop wake-ups (closeChan generations closed).  The environment is varied too (nil / failing / working
// connection, 6-byte / missing interface MAC, link-local address present / absent) so that the panic branches of
// the model are compared with the real panics.
package c08hnd

import (
	"errors"
	"fmt"
	"net"
	"net/netip"
	"strconv"
	"strings"
	"time"

	"github.com/irai/packet"
	"github.com/irai/packet/fastlog"
	"github.com/irai/packet/handlers/arp_spoofer"
	"github.com/irai/packet/handlers/icmp_spoofer"
	"verif/harness/c13"
	"verif/harness/c14"
	"verif/harness/core"
	"verif/harness/frames"
	"verif/harness/ndpgen"
	"verif/harness/sess"
)

func hx(b []byte) string { return core.Hex(b) }

func errName(err error) string {
	switch {
	case err == nil:
		return "nil"
	case errors.Is(err, packet.ErrFrameLen):
		return "ErrFrameLen"
	case errors.Is(err, packet.ErrInvalidMAC):
		return "ErrInvalidMAC"
	case errors.Is(err, packet.ErrParseFrame):
		return "ErrParseFrame"
	case errors.Is(err, packet.ErrParseProtocol):
		return "ErrParseProtocol"
	case errors.Is(err, packet.ErrInvalidLen):
		return "ErrInvalidLen"
	}
	return "other"
}

// failConn: a connection whose WriteTo fails.
type failConn struct{ *sess.RecConn }

func (c failConn) WriteTo(b []byte, addr net.Addr) (int, error) { return 0, errors.New("write failed") }

// newSession: conn 0 = nil, 1 = failing, 2 = recording.
func newSession(nic *packet.NICInfo, conn string) (*packet.Session, *sess.RecConn) {
	rec := sess.NewRecConn()
	var pc net.PacketConn = rec
	if conn == "1" {
		pc = failConn{rec}
	}
	s, err := packet.Config{Conn: pc, NICInfo: nic}.NewSession("")
	if err != nil {
		panic(err)
	}
	s.VerifStopTimers()
	if conn == "0" {
		s.Conn = nil
	}
	return s, rec
}

func nicOf(hostMAC []byte, lla []byte) *packet.NICInfo {
	nic := sess.DefaultNIC()
	if len(hostMAC) == 0 {
		nic.HostAddr4.MAC = nil
	} else {
		nic.HostAddr4.MAC = net.HardwareAddr(hostMAC)
	}
	if lla != nil {
		if len(lla) == 16 {
			nic.HostLLA = netip.PrefixFrom(netip.AddrFrom16(*(*[16]byte)(lla)), 64)
		} else {
			nic.HostLLA = netip.Prefix{}
		}
	}
	return nic
}

func sentStr(fr [][]byte) string {
	if len(fr) == 0 {
		return "-"
	}
	x := []string{}
	for _, b := range fr {
		x = append(x, hx(b))
	}
	return strings.Join(x, ",")
}

func macList(s string) [][]byte {
	if s == "-" {
		return nil
	}
	var out [][]byte
	for _, m := range strings.Split(s, ",") {
		out = append(out, core.UnHex(m))
	}
	return out
}

func b01(v bool) string {
	if v {
		return "1"
	}
	return "0"
}

// envOK: the hypotheses of the theorems about the environment (ArpEnvOK / H6EnvOK).
func envOK(hostMAC []byte, conn string, lla []byte) bool {
	return len(hostMAC) == 6 && conn != "0" && (lla == nil || len(lla) == 16)
}

func totalOracle(what string, ok bool, impl *string) func() (string, string) {
	return func() (string, string) {
		if !ok { // outside the property's domain: only the correspondence is checked
			return "", ""
		}
		if *impl == "panic" || *impl == "hang" {
			return what + " " + *impl + "s on a raw frame (handler body after classification)", ""
		}
		if strings.Contains(*impl, " mu=1") {
			return what + " returned with the handler mutex held", ""
		}
		return "", ""
	}
}

func evalArp(line string) *core.Case {
	f := strings.Fields(line)
	if len(f) != 11 {
		return nil
	}
	hostMAC, conn := core.UnHex(f[1]), f[6]
	hunt := macList(f[7])
	offerMAC, offerIP := core.UnHex(f[8]), core.UnHex(f[9])
	ops := strings.Split(f[10], ",")
	nontrivial := false
	impl := core.WithTimeout(3*time.Second, func() string {
		res := ""
		ndpgen.Quietly(func() {
			s, rec := newSession(nicOf(hostMAC, nil), conn)
			h, err := arp_spoofer.New(s)
			if err != nil {
				res = "new: " + err.Error()
				return
			}
			addrs := []packet.Addr{}
			for i, m := range hunt {
				addrs = append(addrs, packet.Addr{MAC: net.HardwareAddr(m), IP: netip.AddrFrom4([4]byte{192, 168, 0, byte(50 + i)})})
			}
			h.VerifSetHunt(addrs)
			if len(offerMAC) == 6 && len(offerIP) == 4 {
				s.SetDHCPv4IPOffer(net.HardwareAddr(offerMAC), netip.AddrFrom4([4]byte{offerIP[0], offerIP[1], offerIP[2], offerIP[3]}), packet.NameEntry{})
			}
			var disp []string
			for _, op := range ops {
				p := core.UnHex(op)
				if len(p) >= 42 {
					nontrivial = true
				}
				if !h.VerifMuFree() { // the previous call returned with arpMutex held
					break
				}
				buf := append([]byte{}, p...)
				fr, perr := s.Parse(buf)
				switch {
				case perr != nil:
					disp = append(disp, "dropped")
				case fr.PayloadID != packet.PayloadARP:
					disp = append(disp, "notmine")
				default:
					disp = append(disp, "ret:"+errName(h.ProcessPacket(fr)))
				}
			}
			res = fmt.Sprintf("%s mu=%s sent=%s", strings.Join(disp, ","), b01(!h.VerifMuFree()), sentStr(rec.Take()))
			if h.VerifMuFree() {
				h.Close()
			}
		})
		return res
	})
	return &core.Case{Line: line, Impl: impl, Trivial: !nontrivial,
		Oracle: totalOracle("Parse + arp.ProcessPacket", envOK(hostMAC, conn, nil), &impl)}
}

func closedChan(ch chan bool) bool {
	select {
	case _, ok := <-ch:
		return !ok
	default:
		return false
	}
}

func evalIcmp6(line string) *core.Case {
	f := strings.Fields(line)
	if len(f) != 10 {
		return nil
	}
	hostMAC, lla, conn := core.UnHex(f[1]), core.UnHex(f[5]), f[6]
	if lla == nil {
		lla = []byte{}
	}
	rep, err := strconv.Atoi(f[7])
	if err != nil {
		return nil
	}
	hunt := macList(f[8])
	ops := strings.Split(f[9], ",")
	nontrivial := false
	impl := core.WithTimeout(3*time.Second, func() string {
		res := ""
		ndpgen.Quietly(func() {
			s, rec := newSession(nicOf(hostMAC, lla), conn)
			h, _ := icmp_spoofer.New6(s)
			addrs := []packet.Addr{}
			for _, m := range hunt {
				addrs = append(addrs, packet.Addr{MAC: net.HardwareAddr(m), IP: netip.MustParseAddr("fe80::77")})
			}
			h.VerifSetHunt(addrs)
			icmp_spoofer.VerifSetRepeat(rep)
			var disp []string
			wakes := 0
			for _, op := range ops {
				if op == "C" {
					if !h.TryLock() {
						break
					}
					h.Unlock()
					h.Close()
					disp = append(disp, "closed")
					continue
				}
				p := core.UnHex(op)
				if len(p) >= 62 {
					nontrivial = true
				}
				if !h.TryLock() { // the previous call returned with the handler mutex held: every further call would block
					break
				}
				h.Unlock()
				buf := append([]byte{}, p...)
				ch := h.VerifCloseChan()
				before := closedChan(ch)
				fr, perr := s.Parse(buf)
				switch {
				case perr != nil:
					disp = append(disp, "dropped")
				case fr.PayloadID != packet.PayloadICMP6:
					disp = append(disp, "notmine")
				default:
					disp = append(disp, "ret:"+errName(h.ProcessPacket(fr)))
				}
				for i := range buf { // the receive buffer is reused by the packet loop
					buf[i] = 0xee
				}
				if !before && closedChan(ch) {
					wakes++
				}
			}
			free := h.TryLock()
			if free {
				h.Unlock()
			}
			rt, def := "?", "?"
			closed := "?"
			if free {
				rt, def = c14.RoutersCanon(h)
				closed = b01(h.VerifClosed())
			}
			res = fmt.Sprintf("%s mu=%s wakes=%d closed=%s rep=%d def=%s routers=%s sent=%s", strings.Join(disp, ","), b01(!free),
				wakes, closed, icmp_spoofer.VerifRepeat(), def, rt, sentStr(rec.Take()))
			if free {
				h.Close()
			}
		})
		return res
	})
	return &core.Case{Line: line, Impl: impl, Trivial: !nontrivial,
		Cmp: func(a, b string) bool {
			return ndpgen.SameModuloPuny(strings.ReplaceAll(a, "|", " "), strings.ReplaceAll(b, "|", " "))
		},
		Oracle: totalOracle("Parse + Handler6.ProcessPacket / Close", envOK(hostMAC, conn, lla), &impl)}
}

func evalIcmp4(line string) *core.Case {
	f := strings.Fields(line)
	if len(f) != 6 {
		return nil
	}
	hostMAC := core.UnHex(f[1])
	p := core.UnHex(f[5])
	impl := core.WithTimeout(3*time.Second, func() string {
		res := ""
		ndpgen.Quietly(func() {
			s, _ := newSession(nicOf(hostMAC, nil), "2")
			h, _ := icmp_spoofer.New4(s)
			fr, perr := s.Parse(append([]byte{}, p...))
			switch {
			case perr != nil:
				res = "dropped"
			case fr.PayloadID != packet.PayloadICMP4:
				res = "notmine"
			default:
				res = "ret:" + errName(h.ProcessPacket(fr))
			}
		})
		return res
	})
	return &core.Case{Line: line, Impl: impl, Trivial: len(p) < 42,
		Oracle: totalOracle("Parse + Handler4.ProcessPacket", true, &impl)}
}

func Eval(c *core.Ctx, line string) *core.Case {
	// every other line runs with the handlers' loggers at debug level (a function of the line, so a replay
	// reproduces it): all log lines are then formatted - output discarded - and a panicking log call is a handler panic
	lvl := fastlog.LevelInfo
	if len(line)%4 < 2 {
		lvl = fastlog.LevelDebug
	}
	arp_spoofer.Logger.SetLevel(lvl)
	icmp_spoofer.Logger4.SetLevel(lvl)
	icmp_spoofer.Logger6.SetLevel(lvl)
	packet.Logger.SetLevel(lvl)
	switch {
	case strings.HasPrefix(line, "hnd.arp "):
		return evalArp(line)
	case strings.HasPrefix(line, "hnd.icmp6 "):
		return evalIcmp6(line)
	case strings.HasPrefix(line, "hnd.icmp4 "):
		return evalIcmp4(line)
	}
	return nil
}

// hangs: a handler that spins or dead-locks costs a watchdog period per line; after a few witnesses the class is given up
var hangs int

func add(c *core.Ctx, class, line string) {
	if hangs >= 3 {
		c.Drop(class, "skipped: hang budget spent")
		return
	}
	cs := Eval(c, line)
	if cs != nil && cs.Impl == "hang" {
		hangs++
	}
	if cs == nil {
		c.Drop(class, "not evaluated")
		return
	}
	cs.Class = class
	c.Add(*cs)
}

var (
	peer    = []byte{0x02, 0xaa, 0, 0, 0, 7}
	peerLLA = netip.MustParseAddr("fe80::aa:7")
	hostLLA = sess.HostLLA.Addr().As16()
)

func frame6(esrc, edst []byte, src, dst netip.Addr, hop int, icmp []byte) []byte {
	s, d := src.As16(), dst.As16()
	return frames.Ether(edst, esrc, 0x86dd, 0, frames.IP6(frames.IP6Opts{Src: s[:], Dst: d[:], Next: 58, Hop: hop, PayloadLen: -1}, icmp))
}

// nd: neighbour solicitations / advertisements / the other ICMPv6 types with valid and short bodies.
func genND(c *core.Ctx) [][]byte {
	r := c.Rnd
	targets := []netip.Addr{netip.MustParseAddr("2001:db8::5"), netip.MustParseAddr("fe80::5"), netip.MustParseAddr("::"),
		netip.MustParseAddr("ff02::1"), netip.MustParseAddr("::ffff:8.8.8.8"), netip.MustParseAddr("::ffff:169.254.1.1"), netip.MustParseAddr("fd00::9"), netip.MustParseAddr("::1")}
	srcs := []netip.Addr{peerLLA, netip.MustParseAddr("::"), netip.MustParseAddr("2001:db8::7"), netip.MustParseAddr("ff02::1")}
	dsts := []netip.Addr{netip.MustParseAddr("ff02::1:ff00:5"), netip.MustParseAddr("ff02::1"), netip.MustParseAddr("2001:db8::5"), netip.MustParseAddr("fe80::1")}
	var out [][]byte
	n := c.Scale(700, 20000)
	for i := 0; i < n; i++ {
		t := []int{135, 135, 135, 136, 136, 133, 137, 128, 129, 130, 131, 143, 1, 200}[r.Intn(14)]
		tg := targets[r.Intn(len(targets))].As16()
		body := []byte{byte(t), 0, 0, 0, 0, 0, 0, 0}
		switch t {
		case 135:
			body = append(body, tg[:]...)
			if r.Intn(2) == 0 {
				body = append(body, append([]byte{1, 1}, peer...)...)
			}
		case 136:
			body[4] = []byte{0x20, 0x60, 0xa0, 0x00, 0x40}[r.Intn(5)]
			body = append(body, tg[:]...)
			if r.Intn(3) > 0 {
				body = append(body, append([]byte{byte(1 + r.Intn(2)), 1}, peer...)...)
			}
		case 137:
			body = append(body, append(tg[:], tg[:]...)...)
		default:
			body = append(body, c.RandBytes(r.Intn(12))...)
		}
		if r.Intn(6) == 0 {
			body = body[:r.Intn(len(body)+1)]
		}
		edst := []byte{0x33, 0x33, 0xff, 0, 0, 5}
		if r.Intn(4) == 0 {
			edst = []byte(sess.HostMAC)
		}
		fr := frame6(peer, edst, srcs[r.Intn(len(srcs))], dsts[r.Intn(len(dsts))], 255, body)
		switch r.Intn(12) {
		case 0:
			fr = fr[:r.Intn(len(fr)+1)]
		case 1:
			fr[r.Intn(len(fr))] ^= byte(1 << uint(r.Intn(8)))
		}
		out = append(out, fr)
	}
	// size sweep: every ICMPv6 type the handler looks at, filled up to the Ethernet MTU with well-formed options
	// (the handler logs options and payloads; the fastlog line is 2048 bytes, a frame up to 1514)
	sizes := []int{96, 200, 400, 560, 600, 640, 680, 720, 800, 1000, 1232, 1400, 1440, 1452}
	if c.Scale(0, 1) == 1 {
		for k := 64; k <= 1452; k += 24 {
			sizes = append(sizes, k)
		}
	}
	fill := func(body []byte, total int, kind int) []byte {
		for len(body)+8 <= total {
			var o ndpgen.Opt
			room := (total - len(body)) / 8
			switch kind {
			case 0: // prefix information options (32 bytes each)
				o = ndpgen.Prefix(64, true, true, 3600, 1800, ndpgen.RandIP6(r))
			case 1: // one RDNSS option as long as fits, then shorter ones
				n := (room - 1) / 2
				if n > 127 {
					n = 127
				}
				if n < 1 {
					o = ndpgen.Unknown(byte(200+r.Intn(40)), 1, r)
					break
				}
				srv := make([][16]byte, n)
				for i := range srv {
					srv[i] = ndpgen.RandIP6(r)
				}
				o = ndpgen.RDNSS(600, srv...)
			case 2: // search lists with long names
				var names [][]string
				for i := 0; i < 1+r.Intn(3); i++ {
					names = append(names, []string{strings.Repeat("a", 1+r.Intn(60)), strings.Repeat("b", 1+r.Intn(60)), "example"})
				}
				o = ndpgen.DNSSL(600, names...)
			default: // unknown option types of every size
				u := 1 + r.Intn(31)
				if u > room {
					u = room
				}
				o = ndpgen.Unknown(byte(60+r.Intn(150)), u, r)
			}
			b := o.Bytes()
			if len(body)+len(b) > total {
				b = ndpgen.Unknown(99, room, r).Bytes()
				if room > 255 {
					b = ndpgen.Unknown(99, 255, r).Bytes()
				}
			}
			body = append(body, b...)
		}
		return body
	}
	for _, t := range []int{134, 133, 135, 136, 137, 128, 129, 1, 2, 3, 4, 143} {
		for _, k := range sizes {
			tg := targets[1+r.Intn(len(targets)-1)].As16()
			var body []byte
			switch t {
			case 134:
				body = ndpgen.RA(64, byte(r.Intn(256))&0xf8, 1800, 0, 0, nil)
			case 133:
				body = []byte{133, 0, 0, 0, 0, 0, 0, 0}
			case 135:
				body = append([]byte{135, 0, 0, 0, 0, 0, 0, 0}, tg[:]...)
			case 136:
				body = append([]byte{136, 0, 0, 0, 0x60, 0, 0, 0}, tg[:]...)
			case 137:
				body = append(append([]byte{137, 0, 0, 0, 0, 0, 0, 0}, tg[:]...), tg[:]...)
			default:
				body = append([]byte{byte(t), 0, 0, 0, 0, 1, 0, 1}, c.RandBytes(k)...)
				body = body[:k]
			}
			if t >= 133 && t <= 137 {
				body = fill(body, k, r.Intn(4))
			}
			src, dst := peerLLA, dsts[1]
			fr := frame6(peer, []byte{0x33, 0x33, 0, 0, 0, 1}, src, dst, 255, body)
			out = append(out, fr)
		}
	}
	return out
}

func Gen(c *core.Ctx) {
	r := c.Rnd
	rule := "hnd.arp / hnd.icmp6: the raw frames of the arp.frame and nd.frame generators (well-formed requests / probes / replies / announcements / router advertisements with option lists, corrupted header fields, truncation at every length, tags, other EtherTypes, random bytes) plus neighbour solicitations for global / link-local / mapped / multicast targets, neighbour advertisements with every flag combination, the other ICMPv6 types and short bodies; one to three frames (and Close for ICMPv6) per handler; the environment is a working (mostly), failing or nil connection, a 6-byte or missing interface MAC, a present or absent link-local address; hnd.icmp4: ICMPv4 frames of every type incl. destination-unreachable with embedded headers, and every type with message sizes from 8 bytes to the Ethernet MTU (28 sizes quick, +114 thorough); ICMPv6 likewise: RA / RS / NS / NA / redirect filled with well-formed option lists (prefix, RDNSS, DNSSL, unknown) and echo / error messages with bodies up to the MTU (14 sizes quick, +58 thorough).  non-trivial = at least one frame long enough to reach the handler"
	for _, l := range c.CorpusLines() {
		if strings.HasPrefix(l, "hnd.") {
			add(c, "hnd-corpus", l)
		}
	}
	env := func() (hm, conn string) {
		hm, conn = hx(sess.HostMAC), "2"
		switch r.Intn(16) {
		case 0:
			conn = "0"
		case 1:
			conn = "1"
		case 2:
			hm = "-"
		}
		return
	}
	// ARP
	arpLines := c13.GenFrameLines(c)
	for i, l := range arpLines {
		f := strings.Fields(l)
		if len(f) != 10 {
			continue
		}
		hm, conn := env()
		ops := f[9]
		if r.Intn(4) == 0 && i > 0 { // a second frame through the same handler
			if g := strings.Fields(arpLines[r.Intn(i)]); len(g) == 10 {
				ops += "," + g[9]
			}
		}
		add(c, "hnd-arp", fmt.Sprintf("hnd.arp %s %s %s %s %s %s %s %s %s %s", hm, f[2], f[3], f[4], f[5], conn, f[6], f[7], f[8], ops))
	}
	// ICMPv6
	var pool []string
	var reps []string
	for _, l := range c14.GenFrameLines(c) {
		f := strings.Fields(l)
		if len(f) == 7 {
			pool = append(pool, f[6])
			reps = append(reps, f[5])
		}
	}
	for _, fr := range genND(c) {
		pool = append(pool, hx(fr))
		reps = append(reps, "-1")
	}
	lan := hx([]byte{192, 168, 0, 0})
	for i := range pool {
		// a missing interface MAC leaves bytes 6..12 of the pooled buffer as the previous user left them (EncodeEther
		// copies nothing): the frame then depends on the pool's history; that environment is exercised on the ARP side,
		// where EncodeARP panics on it
		_, conn := env()
		hm := hx(sess.HostMAC)
		lla := hx(hostLLA[:])
		if r.Intn(12) == 0 {
			lla = "-"
		}
		hunt := "-"
		if r.Intn(3) > 0 {
			hunt = hx(peer)
		}
		ops := []string{pool[i]}
		for k := r.Intn(3); k > 0; k-- {
			if r.Intn(4) == 0 {
				ops = append(ops, "C")
			}
			ops = append(ops, pool[r.Intn(len(pool))])
		}
		if r.Intn(10) == 0 {
			ops = append([]string{"C"}, ops...)
		}
		rep := reps[i]
		if len(ops) > 1 && r.Intn(2) == 0 {
			rep = strconv.Itoa(r.Intn(8) - 2)
		}
		add(c, "hnd-icmp6", fmt.Sprintf("hnd.icmp6 %s %s %s 24 %s %s %s %s %s", hm, hx(sess.RouterMAC), lan, lla, conn, rep, hunt, strings.Join(ops, ",")))
	}
	// ICMPv4
	n := c.Scale(600, 20000)
	for i := 0; i < n; i++ {
		t := []int{0, 8, 5, 3, 3, 3, 11, 200}[r.Intn(8)]
		body := frames.ICMP(t, r.Intn(4), r.Intn(65536), r.Intn(65536), nil)
		if t == 3 {
			proto := []int{17, 6, 1}[r.Intn(3)]
			inner := frames.IP4(frames.IP4Opts{Src: []byte{192, 168, 0, 129}, Dst: []byte{8, 8, 8, 8}, Proto: proto, TotalLen: -1, IHL: 5}, c.RandBytes(r.Intn(28)))
			if r.Intn(4) == 0 {
				inner[0] = byte(0x40 | r.Intn(16))
			}
			if r.Intn(4) == 0 {
				inner[2], inner[3] = byte(r.Intn(2)), byte(r.Intn(256))
			}
			body = append(body, inner...)
		} else {
			body = append(body, c.RandBytes(r.Intn(16))...)
		}
		fr := frames.Ether(sess.HostMAC, peer, 0x0800, 0, frames.IP4(frames.IP4Opts{Src: []byte{192, 168, 0, 77}, Dst: []byte{192, 168, 0, 129}, Proto: 1, TotalLen: -1, IHL: 5}, body))
		switch r.Intn(8) {
		case 0:
			fr = fr[:r.Intn(len(fr)+1)]
		case 1:
			fr[r.Intn(len(fr))] ^= byte(1 << uint(r.Intn(8)))
		}
		add(c, "hnd-icmp4", fmt.Sprintf("hnd.icmp4 %s %s %s 24 %s", hx(sess.HostMAC), hx(sess.RouterMAC), lan, hx(fr)))
	}
	// size sweep: every ICMPv4 type with message sizes up to the Ethernet MTU (the handler logs whole payloads:
	// a field appended after a truncated byte array sits at the end of the 2048-byte log line)
	sizes := []int{0, 1, 7, 8, 20, 28, 64, 128, 256, 512, 548, 556, 600, 620, 628, 629, 630, 640, 676, 677, 678, 700, 800, 1000, 1200, 1400, 1471, 1472}
	if c.Scale(0, 1) == 1 {
		for k := 0; k <= 1472; k += 13 {
			sizes = append(sizes, k)
		}
	}
	for _, t := range []int{0, 8, 5, 3, 4, 11, 12, 13, 14, 17, 18, 200} {
		for _, k := range sizes {
			body := frames.ICMP(t, r.Intn(4), r.Intn(65536), r.Intn(65536), nil)
			rest := c.RandBytes(k)
			if (t == 3 || t == 5 || t == 11 || t == 12) && k >= 20 { // messages that quote the offending datagram
				proto := []int{17, 6, 1}[r.Intn(3)]
				inner := frames.IP4(frames.IP4Opts{Src: []byte{192, 168, 0, 129}, Dst: []byte{8, 8, 8, 8}, Proto: proto, TotalLen: -1, IHL: 5}, rest[20:])
				copy(rest, inner)
			}
			body = append(body, rest...)
			fr := frames.Ether(sess.HostMAC, peer, 0x0800, 0, frames.IP4(frames.IP4Opts{Src: []byte{192, 168, 0, 77}, Dst: []byte{192, 168, 0, 129}, Proto: 1, TotalLen: -1, IHL: 5}, body))
			add(c, "hnd-icmp4-size", fmt.Sprintf("hnd.icmp4 %s %s %s 24 %s", hx(sess.HostMAC), hx(sess.RouterMAC), lan, hx(fr)))
		}
	}
	c.Res.Rule = rule
}

var Runner = core.Runner{Gen: Gen, Eval: Eval}
