module verif/harness

go 1.21

require github.com/irai/packet v0.0.0

require (
	github.com/mdlayher/netx v0.0.0-20230430222610-7e21880baee8 // indirect
	github.com/vishvananda/netlink v1.3.0 // indirect
	github.com/vishvananda/netns v0.0.5 // indirect
	gitlab.com/golang-commonmark/puny v0.0.0-20191124015043-9f83538fa04f // indirect
	golang.org/x/net v0.34.0 // indirect
	golang.org/x/sys v0.29.0 // indirect
	gopkg.in/yaml.v2 v2.4.0 // indirect
)

replace github.com/irai/packet => /repo
