// Package c03dns: the DNS query share of C03 (encoders and decoders are mutually inverse).
//
//	dns.rt <id> <flags> <name> <qtype>
//
// builds a query the way the library does — buf := make([]byte, len(name)+2); n := encodeName(name,
// buf, 0); msg := EncodeDNSQuery(id, flags, buf[:n], qtype) — and reads it back through the DNS view
// getters and DecodeQuestion.  <name> is the dotted text form without trailing dot ("-" = the root).
// Canonical result (identical to the Lean driver's `dns.rt` up to its `| spec=` part):
//
//	ok <msg> view=<TransactionID,QR,OpCode,AA,TC,RD,RA,Z,ResponseCode,QDCount,ANCount,NSCount,ARCount> q=<DecodeQuestion>
//
// Oracle, for every valid name (labels of 1..63 octets, wire form <= 255 octets, the root included):
// the getters and DecodeQuestion return exactly the values supplied and end at len(msg); the
// harness reference decoder (dnsgen), golang.org/x/net/dns/dnsmessage and the Lean reference
// decoder (Spec.DnsWire, the `spec=` part of the model's reply) read the same header, name, type
// and class from the bytes.
package c03dns

import (
	"bytes"
	"fmt"
	"strconv"
	"strings"

	"github.com/irai/packet"
	"golang.org/x/net/dns/dnsmessage"
	"verif/harness/core"
	g "verif/harness/dnsgen"
	"verif/harness/dnsimpl"
)

var Runner = core.Runner{Gen: Gen, Eval: Eval}

// validName: labels of 1..63 octets (no empty label), wire form of at most 255 octets; "" is the root.
func validName(name []byte) (g.Name, bool) {
	if len(name) == 0 {
		return g.Name{}, true
	}
	n := g.N(string(name))
	for _, l := range n {
		if len(l) == 0 || len(l) > 63 {
			return nil, false
		}
	}
	return n, n.WireLen() <= 255
}

func viewStr(vals ...any) string {
	var s []string
	for _, v := range vals {
		switch x := v.(type) {
		case bool:
			s = append(s, fmt.Sprintf("ok_b_%v", x))
		default:
			s = append(s, fmt.Sprintf("ok_n_%d", x))
		}
	}
	return strings.Join(s, ",")
}

func expectedView(id, fl uint16) string {
	return viewStr(id, fl&0x8000 != 0, int(fl>>11)&0xf, fl&0x0400 != 0, fl&0x0200 != 0, fl&0x0100 != 0,
		fl&0x0080 != 0, int(fl>>4)&7, int(fl)&0xf, 1, 0, 0, 0)
}

// RoundTrip runs the real code.
func RoundTrip(id, fl uint16, name []byte, qt uint16) string {
	return dnsimpl.GuardOp("dns.rt", func() string {
		buf := make([]byte, len(name)+2)
		n := packet.VerifEncodeName(dnsimpl.Exact(name), buf, 0)
		msg := packet.EncodeDNSQuery(id, fl, buf[:n:n], qt)
		p := packet.DNS(msg)
		view := viewStr(p.TransactionID(), p.QR(), p.OpCode(), p.AA(), p.TC(), p.RD(), p.RA(), p.Z(), p.ResponseCode(),
			p.QDCount(), p.ANCount(), p.NSCount(), p.ARCount())
		var q string
		qq, off, err := packet.DecodeQuestion(packet.DNS(dnsimpl.Exact(msg)), 12, make([]byte, 0, 64))
		if err != nil {
			q = "err " + dnsimpl.ErrName(err)
		} else {
			q = fmt.Sprintf("ok %s %d %d %d", core.Hex(qq.Name), qq.Type, qq.Class, off)
		}
		return fmt.Sprintf("ok %s view=%s q=%s", core.Hex(msg), view, q)
	})
}

func Eval(c *core.Ctx, line string) *core.Case {
	f := strings.Fields(line)
	if len(f) != 5 || f[0] != "dns.rt" {
		return nil
	}
	id, e1 := strconv.Atoi(f[1])
	fl, e2 := strconv.Atoi(f[2])
	qt, e3 := strconv.Atoi(f[4])
	if e1 != nil || e2 != nil || e3 != nil || id < 0 || id > 65535 || fl < 0 || fl > 65535 || qt < 0 || qt > 65535 {
		return nil
	}
	name := core.UnHex(f[3])
	if len(name) > 600 {
		return nil
	}
	impl := RoundTrip(uint16(id), uint16(fl), name, uint16(qt))
	labels, valid := validName(name)
	return &core.Case{Line: line, Impl: impl, Trivial: !valid,
		Cmp: func(impl, model string) bool {
			if i := strings.Index(model, " | spec="); i >= 0 {
				model = model[:i]
			}
			return impl == model
		},
		Oracle: func() (string, string) {
			if !valid {
				if strings.HasPrefix(impl, "hang") {
					return "building / reading back a DNS query does not return", ""
				}
				return "", ""
			}
			what := fmt.Sprintf("(query id=%d flags=%#04x name=%q type=%d)", id, fl, name, qt)
			if !strings.HasPrefix(impl, "ok ") {
				return "DNS query round trip: encodeName / EncodeDNSQuery / DecodeQuestion " + impl + " on a valid name " + what, ""
			}
			ff := strings.Fields(impl)
			msg := core.UnHex(ff[1])
			if len(msg) != 16+labels.WireLen() {
				return fmt.Sprintf("DNS query round trip: message of %d octets, expected 12 + %d + 4 %s", len(msg), labels.WireLen(), what), ""
			}
			if v := strings.TrimPrefix(ff[2], "view="); v != expectedView(uint16(id), uint16(fl)) {
				return fmt.Sprintf("DNS query round trip: the DNS view getters do not return the values supplied: %s, supplied %s %s", v, expectedView(uint16(id), uint16(fl)), what), ""
			}
			wantQ := fmt.Sprintf("q=ok %s %d 1 %d", core.Hex(name), qt, len(msg))
			if gotQ := strings.Join(ff[3:], " "); gotQ != wantQ {
				return fmt.Sprintf("DNS query round trip: DecodeQuestion on the query built by encodeName + EncodeDNSQuery gives %q, the values supplied are %q %s", gotQ, wantQ, what), ""
			}
			// independent reference decoder
			m, wf := g.RefMessage(msg)
			if !wf || int(m.ID) != id || int(m.Flags) != fl || m.QD != 1 || m.AN+m.NS+m.AR != 0 || !bytes.Equal(m.QName, name) ||
				int(m.QType) != qt || m.QClass != 1 || m.QEnd != len(msg) {
				return fmt.Sprintf("DNS query round trip: the reference decoder does not read the values supplied: %+v (well-formed=%v) from %x %s", m, wf, msg, what), ""
			}
			// second independent decoder
			var p dnsmessage.Parser
			h, err := p.Start(msg)
			if err != nil {
				return fmt.Sprintf("DNS query round trip: dnsmessage refuses the header: %v %s", err, what), ""
			}
			wantBits := uint16(fl)
			gotBits := uint16(h.OpCode)<<11 | uint16(h.RCode)&0xf
			for _, b := range []struct {
				on  bool
				bit uint16
			}{{h.Response, 0x8000}, {h.Authoritative, 0x0400}, {h.Truncated, 0x0200}, {h.RecursionDesired, 0x0100},
				{h.RecursionAvailable, 0x0080}, {h.AuthenticData, 0x0020}, {h.CheckingDisabled, 0x0010}} {
				if b.on {
					gotBits |= b.bit
				}
			}
			if int(h.ID) != id || gotBits != wantBits&^0x0040 {
				return fmt.Sprintf("DNS query round trip: dnsmessage reads other header values: id=%d flags=%#04x %s", h.ID, gotBits, what), ""
			}
			bytesHaveDot := false
			for _, l := range labels {
				if bytes.IndexByte(l, '.') >= 0 {
					bytesHaveDot = true
				}
			}
			if !bytesHaveDot && len(name)+1 <= 254 {
				q, err := p.Question()
				wantName := string(name) + "."
				if err != nil || q.Name.String() != wantName || int(q.Type) != qt || q.Class != dnsmessage.ClassINET {
					return fmt.Sprintf("DNS query round trip: dnsmessage reads another question: %q type=%d class=%d err=%v %s", q.Name.String(), q.Type, q.Class, err, what), ""
				}
				if _, err := p.Question(); err != dnsmessage.ErrSectionDone {
					return "DNS query round trip: dnsmessage finds more than one question " + what, ""
				}
			}
			return "", ""
		},
		OracleR: func(reply string) (string, string) {
			if !valid {
				return "", ""
			}
			i := strings.Index(reply, " | spec=")
			want := fmt.Sprintf("%d,%d,1,0,0,0,%s:%d:1:%d", id, fl, core.Hex(name), qt, 16+labels.WireLen())
			if i < 0 || reply[i+8:] != want {
				return fmt.Sprintf("DNS query round trip: the Lean reference decoder does not read the values supplied from the model's message: %q, supplied %q", reply, want), ""
			}
			return "", ""
		}}
}

func add(c *core.Ctx, class string, id, fl int, name []byte, qt int) {
	line := fmt.Sprintf("dns.rt %d %d %s %d", id, fl, core.Hex(name), qt)
	cs := Eval(c, line)
	switch {
	case cs == nil:
		c.Drop(class, "not evaluated")
	case dnsimpl.Skipped(cs.Impl):
		c.Drop(class, "skipped: hang budget of the operation spent")
	default:
		cs.Class = class
		c.Add(*cs)
	}
}

// nameOfWire builds a valid name whose wire form has exactly w octets (w >= 3) from labels of at most maxLabel octets.
func nameOfWire(c *core.Ctx, w, maxLabel int) g.Name {
	var n g.Name
	left := w - 1 // without the root octet
	for left > 0 {
		l := maxLabel
		if left-1 < l {
			l = left - 1
		}
		if left-1-l == 1 { // would leave room for a length octet only
			l--
		}
		n = append(n, label(c, l))
		left -= l + 1
	}
	return n
}

// label: l octets of any value except '.', mixed case letters frequent
func label(c *core.Ctx, l int) []byte {
	r := c.Rnd
	b := make([]byte, l)
	mode := r.Intn(4)
	for i := range b {
		switch mode {
		case 0:
			b[i] = byte(r.Intn(256))
		case 1:
			b[i] = "abcXYZ019-_"[r.Intn(11)]
		default:
			b[i] = byte('a' + r.Intn(26))
			if r.Intn(2) == 0 {
				b[i] -= 32
			}
		}
		if b[i] == '.' {
			b[i] = 'x'
		}
	}
	return b
}

// Gen is the C03 (DNS query) run.
func Gen(c *core.Ctx) {
	c.Res.Rule = "dns.rt: encodeName -> EncodeDNSQuery -> DNS view getters -> DecodeQuestion and three reference decoders (dnsgen, dnsmessage, Lean Spec.DnsWire) on the same bytes; names: the root, one label of 1/2/62/63 octets, 2..127 labels, wire form of exactly 3..6 and 250..255 octets (valid) and 256..258, 300, 494..500 octets (outside the valid domain: decoder limit, 512-octet buffer), labels of 64+ octets, empty labels, leading / trailing / double dots, mixed case, arbitrary octets inside labels; ids / flags / types over boundary values (0, 1, 0x8000, 0xffff, every single flag bit) and random.  non-trivial = valid name"
	for _, l := range c.CorpusLines() {
		if cs := Eval(c, l); cs != nil {
			cs.Class = "corpus"
			c.Add(*cs)
		}
	}
	r := c.Rnd
	ids := []int{0, 1, 0x1234, 0x8000, 0xffff}
	flags := []int{0, 0x0100, 0x8000, 0x8400, 0x8180, 0xffff, 0x0010, 0x7800, 0x000f, 0x0070}
	for b := 0; b < 16; b++ {
		flags = append(flags, 1<<uint(b))
	}
	types := []int{1, 28, 12, 33, 16, 255, 0x20, 0x21, 0, 65535}
	pick := func(l []int) int {
		if r.Intn(3) == 0 {
			return r.Intn(65536)
		}
		return l[r.Intn(len(l))]
	}
	// the root with every boundary id / flags / type
	for _, id := range ids {
		for _, fl := range flags {
			add(c, "rt-root", id, fl, nil, types[r.Intn(len(types))])
		}
	}
	for _, qt := range types {
		add(c, "rt-root", pick(ids), pick(flags), nil, qt)
	}
	// one label of every length 1..65 (64, 65: outside the valid domain)
	for l := 1; l <= 65; l++ {
		class := "rt-one-label"
		if l > 63 {
			class = "rt-invalid-label"
		}
		add(c, class, pick(ids), pick(flags), label(c, l), pick(types))
	}
	// exact wire sizes around the limits
	for _, w := range []int{3, 4, 5, 6, 64, 65, 66, 67, 128, 250, 251, 252, 253, 254, 255} {
		for _, ml := range []int{63, 62, 20, 1} {
			n := nameOfWire(c, w, ml)
			if _, ok := validName(n.Text()); !ok || n.WireLen() != w {
				continue
			}
			add(c, "rt-wire-size", pick(ids), pick(flags), n.Text(), pick(types))
		}
	}
	for _, w := range []int{256, 257, 258, 300, 400, 494, 495, 496, 497, 498, 499, 500, 510} {
		n := nameOfWire(c, w, 63)
		add(c, "rt-too-long", pick(ids), pick(flags), n.Text(), pick(types))
	}
	// malformed dotted names
	for _, s := range []string{".", "..", "a.", ".a", "a..b", "a.b.", ".a.b", "a...b", "A.b.C."} {
		add(c, "rt-invalid-dots", pick(ids), pick(flags), []byte(s), pick(types))
	}
	// mixed case is preserved
	for _, s := range []string{"Example.COM", "wWw.ExAmPlE.cOm", "_airplay._tcp.local", "Test-iPad.local", "A", "a", "Z.z"} {
		add(c, "rt-mixed-case", pick(ids), pick(flags), []byte(s), pick(types))
	}
	// random valid names
	for i, n := 0, c.Scale(2500, 100000); i < n; i++ {
		nm := g.RandName(r, []int{1, 2, 3, 5, 20, 127}[r.Intn(6)])
		if r.Intn(3) == 0 {
			k := 1 + r.Intn(5)
			nm = nil
			for j := 0; j < k; j++ {
				nm = append(nm, label(c, 1+r.Intn(40)))
			}
		}
		add(c, "rt-random", pick(ids), pick(flags), nm.Text(), pick(types))
		if i%10 == 0 {
			// a small mutation of the text: may produce empty labels / over-long labels
			t := append([]byte{}, nm.Text()...)
			if len(t) > 0 {
				t[r.Intn(len(t))] = []byte{'.', 0, 0xff, 'Q'}[r.Intn(4)]
			}
			add(c, "rt-mutated", pick(ids), pick(flags), t, pick(types))
		}
	}
}
