// Package sess builds socket-free sessions of the real library with a recording connection.
package sess

import (
	"errors"
	"net"
	"net/netip"
	"sync"
	"time"

	"github.com/irai/packet"
)

// RecConn is a net.PacketConn that records every written frame and never blocks.
type RecConn struct {
	mu     sync.Mutex
	Frames [][]byte
	closed chan struct{}
	once   sync.Once
	// FailEvery > 0: every FailEvery-th write fails (a full socket buffer, an interface going down); the frame is
	// not recorded.  Used by the C09 stress run: a failed write must not leave a lock behind.
	FailEvery int
	writes    int
}

func NewRecConn() *RecConn { return &RecConn{closed: make(chan struct{})} }

func (c *RecConn) ReadFrom(b []byte) (int, net.Addr, error) {
	<-c.closed
	return 0, nil, net.ErrClosed
}
func (c *RecConn) WriteTo(b []byte, addr net.Addr) (int, error) {
	t := make([]byte, len(b))
	copy(t, b)
	c.mu.Lock()
	c.writes++
	if c.FailEvery > 0 && c.writes%c.FailEvery == 0 {
		c.mu.Unlock()
		return 0, errWrite
	}
	c.Frames = append(c.Frames, t)
	c.mu.Unlock()
	return len(b), nil
}

var errWrite = errors.New("write: no buffer space available")

func (c *RecConn) Close() error                       { c.once.Do(func() { close(c.closed) }); return nil }
func (c *RecConn) LocalAddr() net.Addr                { return nil }
func (c *RecConn) SetDeadline(t time.Time) error      { return nil }
func (c *RecConn) SetReadDeadline(t time.Time) error  { return nil }
func (c *RecConn) SetWriteDeadline(t time.Time) error { return nil }

// Take returns and clears the recorded frames.
func (c *RecConn) Take() [][]byte {
	c.mu.Lock()
	defer c.mu.Unlock()
	f := c.Frames
	c.Frames = nil
	return f
}

var (
	HostMAC   = net.HardwareAddr{0x02, 0x00, 0x00, 0x00, 0x00, 0x01}
	RouterMAC = net.HardwareAddr{0x02, 0x00, 0x00, 0x00, 0x00, 0x11}
	HostIP4   = netip.MustParseAddr("192.168.0.129")
	RouterIP4 = netip.MustParseAddr("192.168.0.11")
	HomeLAN   = netip.MustParsePrefix("192.168.0.0/24")
	HostLLA   = netip.MustParsePrefix("fe80::1/64")
	RouterLLA = netip.MustParsePrefix("fe80::11/64")
)

func DefaultNIC() *packet.NICInfo {
	return &packet.NICInfo{
		HostAddr4:   packet.Addr{MAC: HostMAC, IP: HostIP4},
		RouterAddr4: packet.Addr{MAC: RouterMAC, IP: RouterIP4},
		HomeLAN4:    HomeLAN,
		HostLLA:     HostLLA,
		RouterLLA:   RouterLLA,
	}
}

func init() {
	// the NIC monitor goroutine SIGTERMs the process when no IP frame is parsed for this long
	packet.VerifSetMonitorNICFrequency(24 * time.Hour)
}

// New returns a session over a recording connection. The session's two wall-clock background
// goroutines (minute purge loop, NIC monitor that SIGTERMs the process) are stopped: harness
// sessions are driven explicitly and may live longer than a minute.
func New(nic *packet.NICInfo) (*packet.Session, *RecConn) {
	if nic == nil {
		nic = DefaultNIC()
	}
	conn := NewRecConn()
	s, err := packet.Config{Conn: conn, NICInfo: nic}.NewSession("")
	if err != nil {
		panic(err)
	}
	s.VerifStopTimers()
	return s, conn
}

// NewWith returns a session over a recording connection with explicit deadlines
// (all three zero = the library defaults).
func NewWith(nic *packet.NICInfo, probe, offline, purge time.Duration) (*packet.Session, *RecConn, error) {
	if nic == nil {
		nic = DefaultNIC()
	}
	conn := NewRecConn()
	s, err := packet.Config{Conn: conn, NICInfo: nic, ProbeDeadline: probe, OfflineDeadline: offline, PurgeDeadline: purge}.NewSession("")
	if err != nil {
		return nil, nil, err
	}
	s.VerifStopTimers()
	return s, conn, nil
}
