package sess

import (
	"bytes"
	"fmt"

	"github.com/irai/packet"
)

// TableInvariant checks the C05 clauses on the exported tables (call only at quiescence).
func TableInvariant(s *packet.Session) string {
	for ip, h := range s.HostTable.Table {
		if h.Addr.IP != ip {
			return fmt.Sprintf("host indexed under %s has address %s", ip, h.Addr.IP)
		}
		if h.MACEntry == nil || !bytes.Equal(h.MACEntry.MAC, h.Addr.MAC) {
			return fmt.Sprintf("host %s: MAC entry missing or MAC differs", ip)
		}
		n := 0
		for _, e := range s.MACTable.Table {
			for _, x := range e.HostList {
				if x == h {
					n++
					if e != h.MACEntry {
						return fmt.Sprintf("host %s listed under a foreign MAC entry", ip)
					}
				}
			}
		}
		if n != 1 {
			return fmt.Sprintf("host %s listed %d times in MAC entries", ip, n)
		}
		if h.Online && !h.MACEntry.Online {
			return fmt.Sprintf("host %s online but its MAC entry offline", ip)
		}
	}
	seen := map[string]bool{}
	for _, e := range s.MACTable.Table {
		if seen[string(e.MAC)] {
			return "duplicate MAC entry " + e.MAC.String()
		}
		seen[string(e.MAC)] = true
		for _, x := range e.HostList {
			if s.HostTable.Table[x.Addr.IP] != x {
				return fmt.Sprintf("MAC entry %s lists host %s that is not in the host index under the same identity", e.MAC, x.Addr.IP)
			}
		}
	}
	return ""
}
