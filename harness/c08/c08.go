// Package c08 is the umbrella runner of C08 (handlers terminate without panic on arbitrary packets).
// Its generators are the union of the per-area runners (DNS/naming, NDP/ICMP/ARP, DHCP options) and the
// layer-2 helpers handled here (LLDP.GetPDU, Process8023Frame).
package c08

import (
	"fmt"
	"strconv"
	"strings"
	"time"

	"github.com/irai/packet"
	"verif/harness/c01"
	"verif/harness/core"
	"verif/harness/frames"
	"verif/harness/sess"
)

var session *packet.Session

// Sub lists the runners of the other areas; filled by main.go when those packages are linked in.
var Sub []core.Runner

func Eval(c *core.Ctx, line string) *core.Case {
	f := strings.Fields(line)
	if len(f) < 2 {
		return nil
	}
	switch f[0] {
	case "lldp.pdu":
		if len(f) != 3 {
			return nil
		}
		ty, _ := strconv.Atoi(f[1])
		b := core.UnHex(f[2])
		buf := append(make([]byte, 0, len(b)), b...)
		impl := core.WithTimeout(2*time.Second, func() string {
			v := packet.LLDP(buf).GetPDU(ty)
			if v == nil {
				return "ok nil"
			}
			return "ok " + c01.SpanOf(buf, v)
		})
		return &core.Case{Line: line, Impl: impl, Trivial: len(b) < 3,
			Oracle: func() (string, string) {
				if impl == "panic" || impl == "hang" {
					return "LLDP.GetPDU " + impl + "s on " + f[2], ""
				}
				return "", ""
			}}
	case "l2.8023":
		b := core.UnHex(f[1])
		if session == nil {
			session, _ = sess.New(nil)
		}
		fr := frames.Ether([]byte{1, 0x80, 0xc2, 0, 0, 0}, []byte{2, 0, 0, 0, 0, 7}, len(b), 0, b)
		impl := core.WithTimeout(2*time.Second, func() string {
			frame, err := session.Parse(fr)
			if err != nil || frame.PayloadID != packet.Payload8023 {
				return "notparsed"
			}
			_, _, err = packet.Process8023Frame(frame, 0)
			if err != nil {
				return "err " + c01.ErrName(err)
			}
			return "ok"
		})
		if impl == "notparsed" {
			c.Why = "Session.Parse does not classify the frame as 802.3"
			return nil
		}
		return &core.Case{Line: line, Impl: impl, Trivial: len(b) < 3,
			Oracle: func() (string, string) {
				if impl == "panic" || impl == "hang" {
					return "Process8023Frame " + impl + "s on payload " + f[1], ""
				}
				return "", ""
			}}
	}
	for _, s := range Sub {
		if cs := s.Eval(c, line); cs != nil {
			return cs
		}
	}
	return nil
}

func add(c *core.Ctx, class, line string) {
	cs := Eval(c, line)
	if cs == nil {
		c.Drop(class, "not evaluated")
		return
	}
	cs.Class = class
	c.Add(*cs)
}

func GenL2(c *core.Ctx) {
	r := c.Rnd
	for k := 0; k < c.Scale(3000, 100000); k++ {
		// TLV chains: mostly well-formed, with boundary lengths, zero-length TLVs, truncation
		var b []byte
		for n := r.Intn(6); n > 0; n-- {
			t := 1 + r.Intn(8)
			l := []int{0, 1, 2, 3, 7, 200, 511}[r.Intn(7)]
			if r.Intn(3) > 0 && l > 20 {
				l = r.Intn(12)
			}
			b = append(b, byte(t<<1|(l>>8)&1), byte(l))
			b = append(b, c.RandBytes(l)...)
		}
		if r.Intn(3) > 0 {
			b = append(b, 0, 0)
		}
		if r.Intn(4) == 0 && len(b) > 0 {
			b = b[:r.Intn(len(b)+1)]
		}
		if r.Intn(6) == 0 {
			b = c.RandBytes(r.Intn(40))
		}
		add(c, "lldp", fmt.Sprintf("lldp.pdu %d %s", r.Intn(10), core.Hex(b)))
	}
	for k := 0; k < c.Scale(1500, 50000); k++ {
		n := r.Intn(12)
		if r.Intn(4) == 0 {
			n = r.Intn(60)
		}
		b := c.RandBytes(n)
		if n >= 3 {
			switch r.Intn(5) {
			case 0:
				b[0], b[1] = 0x42, 0x42
			case 1:
				b[0], b[1], b[2] = 0xaa, 0xaa, 0x03
			case 2:
				b[0], b[1] = 0xe0, 0xe0
			case 3:
				b[2] = byte(r.Intn(4))
			}
		}
		add(c, "8023", "l2.8023 "+core.Hex(b))
	}
}

func Gen(c *core.Ctx) {
	c.Res.Rule = "union of the per-area generators (see sub-rules in extra.rules) + LLDP TLV chains (boundary/zero lengths, truncation) and 802.3 LLC/SNAP payloads"
	for _, l := range c.CorpusLines() {
		add(c, "corpus", l)
	}
	GenL2(c)
	rules := []string{}
	for _, s := range Sub {
		s.Gen(c)
		rules = append(rules, c.Res.Rule)
	}
	c.Res.Extra["rules"] = rules
	c.Res.Rule = "union of the per-area generators (DNS/naming, NDP/ICMP/ARP, DHCP options; see coverage.rules) + LLDP TLV chains (boundary/zero lengths, truncation) and 802.3 LLC/SNAP payloads"
}

var Runner = core.Runner{Gen: Gen, Eval: Eval}
