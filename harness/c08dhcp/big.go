package c08dhcp

import "verif/harness/core"

// inflate: the same DHCP message with long options inserted before the end marker, up to a payload near the limit of
// one Ethernet frame (the generator's own messages stay around 300 bytes - class_max_input_bytes in the evidence):
// a 255-byte host name / vendor class / client-side FQDN, a parameter request list of up to 255 codes, unknown
// options, pad bytes.  The handler logs names and walks every option; replies are encoded in place in this buffer.
func inflate(c *core.Ctx, p []byte) []byte {
	r := c.Rnd
	if len(p) < 241 {
		return p
	}
	i := 240
	for i < len(p) && p[i] != 255 {
		if p[i] == 0 {
			i++
			continue
		}
		if i+1 >= len(p) || i+2+int(p[i+1]) > len(p) {
			return p
		}
		i += 2 + int(p[i+1])
	}
	if i >= len(p) {
		return p
	}
	target := []int{400, 576, 700, 1000, 1300, 1400, 1458}[r.Intn(7)]
	var ins []byte
	add := func(code byte, v []byte) {
		if len(v) > 255 {
			v = v[:255]
		}
		ins = append(append(ins, code, byte(len(v))), v...)
	}
	name := make([]byte, 255)
	for k := range name {
		name[k] = byte('a' + k%26)
	}
	for len(p)+len(ins) < target {
		room := target - len(p) - len(ins)
		n := 255
		if room-2 < n {
			n = room - 2
		}
		if n < 0 {
			break
		}
		switch r.Intn(6) {
		case 0:
			add(12, name[:n]) // host name
		case 1:
			add(60, name[:n]) // vendor class identifier
		case 2:
			add(81, append([]byte{0, 0, 0}, name[:max0(n-3)]...)) // client FQDN
		case 3:
			l := make([]byte, n) // parameter request list: every code, in a random rotation
			off := r.Intn(256)
			for k := range l {
				l[k] = byte(off + k)
			}
			add(55, l)
		case 4:
			add(byte(128+r.Intn(100)), c.RandBytes(n)) // site-specific / unknown option
		default:
			for k := 0; k < n/4+1; k++ {
				ins = append(ins, 0) // pad
			}
		}
	}
	out := append([]byte{}, p[:i]...)
	out = append(out, ins...)
	return append(out, p[i:]...)
}

func max0(n int) int {
	if n < 0 {
		return 0
	}
	return n
}
