// Package c08dhcp: the DHCPv4 handler share of C08 (handlers terminate without panic on arbitrary
// packets).  Arbitrary DHCP payloads — valid client and server messages closed under truncation,
// option corruption and random mutation — go through Session.Parse and Handler.ProcessPacket of a
// fresh server in each operating mode, in both directions (client→server port 67, server→client
// port 68).  Observed: panic, no return within the watchdog, and "returned but left the handler
// blocked" (the follow-up calls that take the handler lock and the session lock do not return).
// The server logic itself is modelled and tied under C11/C12; option parsing under C03Dhcp.
//
//	dhcp.proc <mode 1..3> <c|s> <dhcp payload>
package c08dhcp

import (
	"encoding/binary"
	"errors"
	"fmt"
	"strconv"
	"strings"
	"sync/atomic"
	"time"

	"github.com/irai/packet"
	"verif/harness/c11"
	"verif/harness/core"
	"verif/harness/sess"
)

var Runner = core.Runner{Gen: Gen, Eval: Eval}

const blocked = " +blocked"

var hangs int

func errClass(err error) string {
	switch {
	case err == nil:
		return "nil"
	case errors.Is(err, packet.ErrFrameLen):
		return "ErrFrameLen"
	case errors.Is(err, packet.ErrInvalidMAC):
		return "ErrInvalidMAC"
	case errors.Is(err, packet.ErrParseFrame):
		return "ErrParseFrame"
	case errors.Is(err, packet.ErrParseProtocol):
		return "ErrParseProtocol"
	}
	return "other"
}

func ipChecksum(h []byte) uint16 {
	var sum uint32
	for i := 0; i+1 < len(h); i += 2 {
		sum += uint32(h[i])<<8 | uint32(h[i+1])
	}
	for sum > 0xffff {
		sum = sum&0xffff + sum>>16
	}
	return ^uint16(sum)
}

var clientMAC = []byte{0x02, 0xc8, 0, 0, 0, 0x21}

// frame wraps the payload in Ethernet/IPv4/UDP the way it arrives on the wire.
func frame(dir string, p []byte) []byte {
	b := make([]byte, 42+len(p))
	copy(b[0:6], []byte{0xff, 0xff, 0xff, 0xff, 0xff, 0xff})
	src := clientMAC
	if len(p) >= 34 && p[28]&1 == 0 && (p[28]|p[29]|p[30]|p[31]|p[32]|p[33]) != 0 {
		src = p[28:34] // chaddr
	}
	sport, dport, sip := uint16(68), uint16(67), uint32(0)
	if dir == "s" {
		src, sport, dport, sip = sess.RouterMAC, 67, 68, binary.BigEndian.Uint32(c11.Cfgs[0].Router.AsSlice())
	}
	copy(b[6:12], src)
	b[12], b[13] = 0x08, 0x00
	ip := b[14:34]
	ip[0], ip[8], ip[9] = 0x45, 64, 17
	binary.BigEndian.PutUint16(ip[2:], uint16(28+len(p)))
	binary.BigEndian.PutUint32(ip[12:], sip)
	binary.BigEndian.PutUint32(ip[16:], 0xffffffff)
	binary.BigEndian.PutUint16(ip[10:], ipChecksum(ip))
	udp := b[34:42]
	binary.BigEndian.PutUint16(udp[0:], sport)
	binary.BigEndian.PutUint16(udp[2:], dport)
	binary.BigEndian.PutUint16(udp[4:], uint16(8+len(p)))
	copy(b[42:], p)
	return b
}

func Eval(c *core.Ctx, line string) *core.Case {
	f := strings.Fields(line)
	if len(f) >= 5 && f[0] == "dhcp.raw" {
		return evalRaw(c, f) // raw.go: compared with Model.Dhcp4Frame.processRaw
	}
	if len(f) != 4 || f[0] != "dhcp.proc" || (f[2] != "c" && f[2] != "s") {
		return nil
	}
	mode, err := strconv.Atoi(f[1])
	if err != nil || mode < 1 || mode > 3 {
		return nil
	}
	p := core.UnHex(f[3])
	if len(p) > 1400 {
		return nil
	}
	w, err := c11.NewWorld(0, mode, "")
	if err != nil {
		// the handler must be constructible in every operating mode: report, do not drop
		what := fmt.Sprintf("dhcp4 handler cannot be constructed in mode %d on the harness configuration: %v", mode, err)
		return &core.Case{Line: line, Impl: "err construct", Cmp: func(string, string) bool { return true },
			Oracle: func() (string, string) { return what, "" }}
	}
	buf := frame(f[2], p)
	var returned atomic.Value
	impl := core.WithTimeout(2*time.Second, func() string {
		fr, err := w.S.Parse(buf)
		if err != nil || fr.PayloadID != packet.PayloadDHCP4 {
			return "notparsed"
		}
		r := "ok ret=" + errClass(w.H.ProcessPacket(fr))
		returned.Store(r)
		// what the packet loop and its readers do next: they need the handler lock and the session lock
		w.H.VerifDump()
		w.S.IsCaptured(clientMAC)
		w.S.VerifHosts()
		return r
	})
	if impl == "notparsed" {
		c.Why = "Session.Parse does not hand the frame to the DHCPv4 processor"
		return nil
	}
	if r, ok := returned.Load().(string); ok && (impl == "hang" || impl == "panic") {
		impl = r + blocked
	}
	if impl == "hang" || strings.HasSuffix(impl, blocked) {
		hangs++
	}
	return &core.Case{Line: line, Impl: impl, Trivial: len(p) < 240, Cmp: func(string, string) bool { return true },
		Oracle: func() (string, string) {
			switch {
			case strings.HasSuffix(impl, blocked):
				return "dhcp4.ProcessPacket returned (" + strings.TrimSuffix(impl, blocked) + ") but left the server blocked: the next calls that take the handler lock / the session lock do not return normally (lock still held on that path)", ""
			case impl == "panic" || impl == "hang":
				return "dhcp4.ProcessPacket: the call did not return normally (" + impl + ")", ""
			}
			return "", ""
		}}
}

func add(c *core.Ctx, class, line string) {
	if hangs >= 3 {
		c.Drop(class, "skipped: hang budget of dhcp.proc spent")
		return
	}
	cs := Eval(c, line)
	if cs == nil {
		c.Drop(class, "not evaluated")
		return
	}
	cs.Class = class
	c.Add(*cs)
}

// message builds a BOOTP/DHCP message: fixed part, magic cookie, options in the given order, end.
func message(op byte, xid []byte, flags uint16, ci, yi uint32, chaddr []byte, opts [][]byte, end bool) []byte {
	d := make([]byte, 240)
	d[0], d[1], d[2] = op, 1, 6
	copy(d[4:8], xid)
	binary.BigEndian.PutUint16(d[10:], flags)
	binary.BigEndian.PutUint32(d[12:], ci)
	binary.BigEndian.PutUint32(d[16:], yi)
	copy(d[28:34], chaddr)
	copy(d[236:240], []byte{99, 130, 83, 99})
	for _, o := range opts {
		d = append(d, o...)
	}
	if end {
		d = append(d, 255)
	}
	return d
}

func opt(code byte, v ...byte) []byte { return append([]byte{code, byte(len(v))}, v...) }

// Gen is the C08 (DHCPv4 handler) run.
func Gen(c *core.Ctx) {
	c.Res.Rule = "dhcp.proc: DISCOVER / REQUEST (selecting, init-reboot, renewing) / DECLINE / RELEASE / INFORM / OFFER / ACK / NAK and unassigned message types for addresses inside and outside both subnets, with and without client id / server id / requested address / host name, through Parse + dhcp4.ProcessPacket of a fresh server in modes 1..3, as client→server and server→client datagrams; closed under truncation at every offset, option length / code corruption, missing end option, wrong op / hlen / cookie, random mutation, plus random payloads; after every call the handler lock and the session lock are probed under the same watchdog.  non-trivial = payload of at least 240 bytes"
	for _, l := range c.CorpusLines() {
		add(c, "corpus", l)
	}
	r := c.Rnd
	cfg := c11.Cfgs[0]
	host := binary.BigEndian.Uint32(cfg.Host.AsSlice())
	router := binary.BigEndian.Uint32(cfg.Router.AsSlice())
	ips := []uint32{0, host, router, host&0xffffff00 | 20, host&0xffffff00 | 130, host&0xffffff00 | 134, host&0xffffff00 | 255, 0x08080808, 0xffffffff}
	ip4 := func(v uint32) []byte { return []byte{byte(v >> 24), byte(v >> 16), byte(v >> 8), byte(v)} }
	build := func() ([]byte, string) {
		mt := []byte{1, 3, 3, 3, 4, 7, 8, 2, 5, 6, 0, 9, byte(r.Intn(256))}[r.Intn(13)]
		mac := c.RandBytes(6)
		mac[0] &= 0xfe
		var opts [][]byte
		if r.Intn(12) != 0 {
			opts = append(opts, opt(53, mt))
		} else if r.Intn(2) == 0 {
			opts = append(opts, opt(53, mt, mt))
		}
		if r.Intn(2) == 0 {
			id := append([]byte{1}, mac...)
			switch r.Intn(6) {
			case 0:
				id = nil
			case 1:
				id = c.RandBytes(1 + r.Intn(20))
			}
			opts = append(opts, opt(61, id...))
		}
		if r.Intn(2) == 0 {
			opts = append(opts, opt(50, ip4(ips[r.Intn(len(ips))])[:[]int{4, 4, 4, 3, 0}[r.Intn(5)]]...))
		}
		if r.Intn(2) == 0 {
			opts = append(opts, opt(54, ip4([]uint32{host, router, 0, 0x08080808}[r.Intn(4)])[:[]int{4, 4, 4, 2}[r.Intn(4)]]...))
		}
		if r.Intn(3) == 0 {
			opts = append(opts, opt(12, c.RandBytes(r.Intn(20))...))
		}
		if r.Intn(3) == 0 {
			opts = append(opts, opt(55, c.RandBytes(r.Intn(12))...))
		}
		if r.Intn(8) == 0 {
			opts = append(opts, opt(byte(1+r.Intn(254)), c.RandBytes(r.Intn(30))...))
		}
		r.Shuffle(len(opts), func(i, j int) { opts[i], opts[j] = opts[j], opts[i] })
		op, dir := byte(1), "c"
		if mt == 2 || mt == 5 || mt == 6 || r.Intn(10) == 0 {
			op, dir = 2, "s"
		}
		if r.Intn(10) == 0 {
			dir = []string{"c", "s"}[r.Intn(2)]
		}
		fl := uint16(0)
		if r.Intn(3) == 0 {
			fl = 0x8000
		}
		return message(op, c.RandBytes(4), fl, ips[r.Intn(len(ips))], ips[r.Intn(len(ips))], mac, opts, r.Intn(15) != 0), dir
	}
	for i, n := 0, c.Scale(1500, 60000); i < n; i++ {
		p, dir := build()
		mode := 1 + r.Intn(3)
		add(c, "dhcp.proc-valid", fmt.Sprintf("dhcp.proc %d %s %s", mode, dir, core.Hex(p)))
		if i%c.Scale(25, 300) == 0 {
			for cut := 0; cut <= len(p); cut++ {
				add(c, "dhcp.proc-truncated", fmt.Sprintf("dhcp.proc %d %s %s", mode, dir, core.Hex(p[:cut])))
			}
		}
		q := append([]byte{}, p...)
		switch r.Intn(6) {
		case 0: // option area
			if len(q) > 240 {
				q[240+r.Intn(len(q)-240)] = []byte{0, 1, 2, 255, 254, byte(r.Intn(256))}[r.Intn(6)]
			}
		case 1: // op / htype / hlen
			q[r.Intn(3)] = byte(r.Intn(8))
		case 2: // cookie
			q[236+r.Intn(4)] ^= byte(1 + r.Intn(255))
		case 3:
			for k := 1 + r.Intn(3); k > 0; k-- {
				q[r.Intn(len(q))] = byte(r.Intn(256))
			}
		case 4:
			q = append(q, c.RandBytes(r.Intn(12))...)
		case 5:
			q = q[:len(q)-1-r.Intn(min(len(q)-1, 12))]
		}
		add(c, "dhcp.proc-corrupt", fmt.Sprintf("dhcp.proc %d %s %s", mode, dir, core.Hex(q)))
	}
	for i, n := 0, c.Scale(300, 20000); i < n; i++ {
		p := c.RandBytes([]int{0, 1, 239, 240, 241, 244, 300}[r.Intn(7)] + r.Intn(3))
		if len(p) >= 240 && r.Intn(2) == 0 {
			p[0], p[1], p[2] = byte(1+r.Intn(2)), 1, 6
			copy(p[236:240], []byte{99, 130, 83, 99})
		}
		add(c, "dhcp.proc-noise", fmt.Sprintf("dhcp.proc %d %s %s", 1+r.Intn(3), []string{"c", "s"}[r.Intn(2)], core.Hex(p)))
	}
	c.Res.Rule += " || dhcp.raw: histories of raw payloads (crafted from the server's current leases: DISCOVER, REQUEST in every state, DECLINE, RELEASE, INFORM, server-to-client types, duplicated / padded / truncated options, wrong op / hlen, long client ids) after an abstract setup history, three configurations x three modes, both directions, IP source and spare buffer capacity varied; every call COMPARED with Model.Dhcp4Frame.processRaw from the implementation's own pre-state (returned error, cursors, lease table, replies, forged DECLINE)"
	GenRaw(c)
}

func min(a, b int) int {
	if a < b {
		return a
	}
	return b
}
