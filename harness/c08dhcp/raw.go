package c08dhcp

// dhcp.raw lines: the DHCPv4 handler on RAW payloads, COMPARED with the Lean function
// Model.Dhcp4Frame.processRaw (not only observed for panics).
//
//	dhcp.raw <cfgIdx> <mode 1..3> <setup> <ev>;<ev>…   [@ <now> <cfgdump> <pre> <pre>…]
//
// <setup> = `-` or c11 operations joined by `+` (abstract DISCOVER / REQUEST / capture / host … that bring the
// server into a state with offers and leases); every <ev> = <c|s>:<IPv4 source>:<spare capacity>:<payload hex>
// is one frame (c: client → port 67, s: server → port 68) carrying exactly these payload bytes, received in a
// buffer with that many bytes behind the payload (the server encodes its reply in place), through Session.Parse
// and Handler.ProcessPacket.  The part from `@` on is written by Eval: the canonical time, the configuration and
// the state the implementation was in before each event (dumped after Parse of the frame) — the model runs
// every event from the implementation's own pre-state — and, after `#`, per event the option codes of the
// implementation's reply in wire order (`-`: no reply): the Go map iteration order the model's `replyBytes` is run
// with.  Compared per event: returned error class, allocation cursors, lease table, replies (type, yiaddr, ciaddr,
// xid, chaddr, broadcast, options), in the client direction whether a forged DECLINE went out, and `bytes=`: the
// reply's DHCP message BYTE FOR BYTE (the UDP payload of the frame written) against Model.Dhcp4Frame.replyBytes.

import (
	"bytes"
	"encoding/binary"
	"fmt"
	"runtime"
	"sort"
	"strconv"
	"strings"
	"time"

	"github.com/irai/packet"
	"verif/harness/c11"
	"verif/harness/core"
	"verif/harness/sess"
)

type rawEv struct {
	dir   string
	src   uint32
	extra int
	p     []byte
	mac   []byte // Ethernet source of the frame (optional 5th field; nil: chaddr / the router, as rawFrame chooses)
}

func (e rawEv) String() string {
	if e.mac != nil {
		return fmt.Sprintf("%s:%d:%d:%s:%s", e.dir, e.src, e.extra, core.Hex(e.p), core.Hex(e.mac))
	}
	return fmt.Sprintf("%s:%d:%d:%s", e.dir, e.src, e.extra, core.Hex(e.p))
}

func parseRawEv(s string) (rawEv, bool) {
	f := strings.Split(s, ":")
	var mac []byte
	if len(f) == 5 {
		if len(f[4]) != 12 {
			return rawEv{}, false
		}
		for _, ch := range f[4] {
			if !(ch >= '0' && ch <= '9' || ch >= 'a' && ch <= 'f') {
				return rawEv{}, false
			}
		}
		mac = core.UnHex(f[4])
		f = f[:4]
	}
	if len(f) != 4 || (f[0] != "c" && f[0] != "s") {
		return rawEv{}, false
	}
	src, err1 := strconv.ParseUint(f[1], 10, 32)
	extra, err2 := strconv.Atoi(f[2])
	if err1 != nil || err2 != nil || extra < 0 || extra > 2000 {
		return rawEv{}, false
	}
	for _, ch := range f[3] {
		if !(ch == '-' || ch >= '0' && ch <= '9' || ch >= 'a' && ch <= 'f') {
			return rawEv{}, false
		}
	}
	if f[3] != "-" && len(f[3])%2 != 0 {
		return rawEv{}, false
	}
	p := core.UnHex(f[3])
	if len(p) > 1400 {
		return rawEv{}, false
	}
	return rawEv{f[0], uint32(src), extra, p, mac}, true
}

// rawFrame: Ethernet/IPv4/UDP around the payload in a buffer of exactly 42+len(p)+extra bytes; the returned
// frame is buf[:42+len(p)], so the payload's capacity is len(p)+extra.
func rawFrame(e rawEv) (frame, buf []byte) {
	buf = make([]byte, 42+len(e.p)+e.extra)
	b := buf[:42+len(e.p)]
	copy(b[0:6], []byte{0xff, 0xff, 0xff, 0xff, 0xff, 0xff})
	src := clientMAC
	if len(e.p) >= 34 && e.p[28]&1 == 0 && (e.p[28]|e.p[29]|e.p[30]|e.p[31]|e.p[32]|e.p[33]) != 0 {
		src = e.p[28:34] // chaddr
	}
	sport, dport := uint16(68), uint16(67)
	if e.dir == "s" {
		src, sport, dport = sess.RouterMAC, 67, 68
	}
	if e.mac != nil {
		src = e.mac
	}
	copy(b[6:12], src)
	b[12], b[13] = 0x08, 0x00
	ip := b[14:34]
	ip[0], ip[8], ip[9] = 0x45, 64, 17
	binary.BigEndian.PutUint16(ip[2:], uint16(28+len(e.p)))
	binary.BigEndian.PutUint32(ip[12:], e.src)
	binary.BigEndian.PutUint32(ip[16:], 0xffffffff)
	binary.BigEndian.PutUint16(ip[10:], ipChecksum(ip))
	udp := b[34:42]
	binary.BigEndian.PutUint16(udp[0:], sport)
	binary.BigEndian.PutUint16(udp[2:], dport)
	binary.BigEndian.PutUint16(udp[4:], uint16(8+len(e.p)))
	copy(b[42:], e.p)
	return b, buf
}

// isForgedDecline: a BOOTREQUEST with message type DECLINE written by the server (client.go forceDecline).
func isForgedDecline(fr []byte) bool {
	if len(fr) < 14+20+8+240 || fr[12] != 0x08 || fr[13] != 0x00 || fr[23] != 17 {
		return false
	}
	u := fr[14+int(fr[14]&0xf)*4:]
	if len(u) < 8+240 || binary.BigEndian.Uint16(u[2:]) != 67 {
		return false
	}
	d := u[8:]
	if d[0] != 1 {
		return false
	}
	for o := d[240:]; len(o) >= 2 && o[0] != 255; {
		if o[0] == 0 {
			o = o[1:]
			continue
		}
		if len(o) < 2+int(o[1]) {
			return false
		}
		if o[0] == 53 {
			return o[1] == 1 && o[2] == 4
		}
		o = o[2+int(o[1]):]
	}
	return false
}

// wireCheck: the reply's DHCP message read with offsets only (RFC 2131 figure 1), against the request payload it
// answers: BOOTREPLY, Ethernet, hlen 6, hops / secs / flags / siaddr / giaddr zero, the request's xid and chaddr,
// chaddr padding / sname / file zero, the magic cookie, well-formed options ending with the end option and zero
// padding, at least 300 bytes, the subnet mask (when present) as the first option.  "" = fine.
func wireCheck(req, rep []byte) string {
	if len(rep) < 300 {
		return fmt.Sprintf("%d bytes (BOOTP minimum is 300)", len(rep))
	}
	if len(req) < 240 {
		return "reply to a request shorter than 240 bytes"
	}
	if rep[0] != 2 || rep[1] != 1 || rep[2] != 6 || rep[3] != 0 {
		return fmt.Sprintf("op/htype/hlen/hops = % x, want 02 01 06 00", rep[0:4])
	}
	if !bytes.Equal(rep[4:8], req[4:8]) {
		return fmt.Sprintf("xid %x, the request has %x", rep[4:8], req[4:8])
	}
	if !bytes.Equal(rep[28:34], req[28:34]) {
		return fmt.Sprintf("chaddr %x, the request has %x", rep[28:34], req[28:34])
	}
	for i, b := range rep[:236] {
		if b != 0 && (i >= 8 && i < 12 || i >= 20 && i < 28 || i >= 34) {
			return fmt.Sprintf("byte %d = %#x (secs / flags / siaddr / giaddr / chaddr padding / sname / file must be zero)", i, b)
		}
	}
	if !bytes.Equal(rep[236:240], []byte{99, 130, 83, 99}) {
		return fmt.Sprintf("magic cookie % x", rep[236:240])
	}
	o := rep[240:]
	first := true
	for {
		if len(o) == 0 {
			return "no end option"
		}
		if o[0] == 255 {
			o = o[1:]
			break
		}
		if o[0] == 0 {
			return "pad option inside the option area"
		}
		if len(o) < 2 || len(o) < 2+int(o[1]) {
			return "option runs past the end of the message"
		}
		if o[0] == 1 && !first {
			return "subnet mask is not the first option"
		}
		first = false
		o = o[2+int(o[1]):]
	}
	for _, b := range o {
		if b != 0 {
			return "non-zero padding after the end option"
		}
	}
	return ""
}

type rawStep struct {
	dest    string // a reply that did not go where the request came from, or whose bytes are malformed ("" = fine)
	impl    string // canonical result of the event ("" = frame not dispatched to the handler)
	pre     string
	cfg     string
	replies []*c11.Reply
	why     string
	ord     string // option codes of the reply in wire order (hex; "-" without a reply): the map iteration order the model is run with
	dord    string // the same for the forged DECLINE of the event ("-": none)
	mac     []byte // Ethernet source of the request frame as received
}

// runRawEv runs one event on the world.
func runRawEv(w *c11.World, e rawEv) rawStep {
	var st rawStep
	st.ord = "-"
	frame, buf := rawFrame(e)
	srcMAC := append([]byte{}, frame[6:12]...) // the buffer is overwritten after the call
	st.mac, st.dord = srcMAC, "-"
	nic := w.S.NICInfo
	fr, err := w.S.Parse(frame)
	if err != nil || fr.PayloadID != packet.PayloadDHCP4 {
		st.why = "Session.Parse does not hand the frame to the DHCPv4 processor"
		return st
	}
	var bad string
	st.pre, st.cfg, bad = w.Dump()
	w.Conn.Take()
	goroutines := runtime.NumGoroutine()
	res := core.WithTimeout(2*time.Second, func() string {
		r := "ok ret=" + errClass(w.H.ProcessPacket(fr))
		// what the packet loop and its readers do next: they need the handler lock and the session lock
		w.H.VerifDump()
		w.S.IsCaptured(clientMAC)
		w.S.VerifHosts()
		return r
	})
	if res == "panic" || res == "hang" {
		st.impl = res
		return st
	}
	// the receive loop reuses its buffer: whatever the server kept must not point into it
	for i := range buf {
		buf[i] = 0xee
	}
	for deadline := time.Now().Add(10 * time.Second); runtime.NumGoroutine() > goroutines && time.Now().Before(deadline); {
		runtime.Gosched()
		time.Sleep(10 * time.Microsecond)
	}
	declines := 0
	var reps, raws, frames, dframes []string
	st.ord = "-"
	for _, f := range w.Conn.Take() {
		if r, ok := c11.DecodeReply(f); ok {
			st.replies = append(st.replies, r)
			raws = append(raws, core.Hex(r.Raw))
			frames = append(frames, core.Hex(f))
			if bad := replyFrameCheck(nic.HostAddr4.MAC, c11.U32(nic.HostAddr4.IP), srcMAC, e.src, f); bad != "" {
				st.dest = "reply frame: " + bad
			}
			if bad := wireCheck(e.p, r.Raw); bad != "" {
				st.dest = "reply bytes: " + bad
			}
			if len(st.replies) == 1 {
				st.ord = core.Hex(r.Order)
			}
			s := r.String()
			if r.Bad != "" {
				s += "!" + strings.ReplaceAll(r.Bad, " ", "_")
			}
			reps = append(reps, s)
			// destination (the model knows broadcast / unicast only): a unicast reply goes to the sender's MAC and IP
			// source, a broadcast one is sent because the datagram had no source address
			if st.dest == "" && !r.BCast && (!bytes.Equal(r.DstMAC, srcMAC) || r.DstIP != e.src) {
				st.dest = fmt.Sprintf("unicast %s sent to %x / %d, the request came from %x / %d", s[:strings.Index(s, ":")], r.DstMAC, r.DstIP, srcMAC, e.src)
			}
		} else if isForgedDecline(f) {
			declines++
			if bad := udpFrameCheck(nic.HostAddr4.MAC, c11.U32(nic.HostAddr4.IP), nic.RouterAddr4.MAC, c11.U32(nic.RouterAddr4.IP), 68, 67, f); bad != "" {
				st.dest = "forged DECLINE frame: " + bad
			}
			if e.dir == "s" { // the DECLINE that answers another server's OFFER is modelled byte for byte (declineFrame)
				dframes = append(dframes, core.Hex(f))
				if declines == 1 {
					st.dord = core.Hex(optionOrder(f[42:]))
				}
				if bad := declineCheck(e.p, f[42:]); bad != "" {
					st.dest = "forged DECLINE: " + bad
				}
			}
		}
	}
	post, _, bad2 := w.Dump()
	if bad == "" {
		bad = bad2
	}
	pf := strings.Split(post, "|")
	leases := []string{}
	if len(pf) >= 2 && pf[1] != "-" {
		leases = strings.Split(pf[1], ";")
	}
	sort.Strings(leases)
	ls, rs := "-", "-"
	if len(leases) > 0 {
		ls = strings.Join(leases, ";")
	}
	if len(reps) > 0 {
		rs = strings.Join(reps, ";")
	}
	decl := "-"
	if e.dir == "s" {
		decl = strconv.Itoa(declines)
	}
	bs := "-"
	if len(raws) > 0 {
		bs = strings.Join(raws, ",")
	}
	fs, ds := "-", "-"
	if len(frames) > 0 {
		fs = strings.Join(frames, ",")
	}
	if len(dframes) > 0 {
		ds = strings.Join(dframes, ",")
	}
	st.impl = fmt.Sprintf("%s %s|%s|%s decl=%s bytes=%s frames=%s dframes=%s", res, pf[0], ls, rs, decl, bs, fs, ds)
	if bad != "" {
		st.impl += " BAD:" + strings.ReplaceAll(bad, " ", "_")
	}
	return st
}

func rawWorld(cfgIdx, mode int, setup string) (*c11.World, string) {
	w, err := c11.NewWorld(cfgIdx, mode, "")
	if err != nil {
		return nil, fmt.Sprintf("dhcp4 handler cannot be constructed in mode %d on harness configuration %d: %v", mode, cfgIdx, err)
	}
	if setup != "-" {
		for _, s := range strings.Split(setup, "+") {
			o, ok := c11.ParseOp(s)
			if !ok || o.Kind == "restart" {
				return nil, "bad setup op " + s
			}
			w.Apply(o)
		}
	}
	return w, ""
}

func evalRaw(c *core.Ctx, f []string) *core.Case {
	if len(f) < 5 {
		return nil
	}
	cfgIdx, err1 := strconv.Atoi(f[1])
	mode, err2 := strconv.Atoi(f[2])
	if err1 != nil || err2 != nil || cfgIdx < 0 || cfgIdx >= len(c11.Cfgs) || mode < 1 || mode > 3 {
		return nil
	}
	var evs []rawEv
	for _, s := range strings.Split(f[4], ";") {
		e, ok := parseRawEv(s)
		if !ok {
			return nil
		}
		evs = append(evs, e)
	}
	w, why := rawWorld(cfgIdx, mode, f[3])
	if w == nil {
		if strings.HasPrefix(why, "bad setup") {
			return nil
		}
		line := strings.Join(f[:5], " ")
		return &core.Case{Line: line, Impl: "err construct", Cmp: func(string, string) bool { return true },
			Oracle: func() (string, string) { return why, "" }}
	}
	var impls, pres, done, ords, dords []string
	nicTok := ""
	dest := ""
	cfg := ""
	trivial := true
	broken := ""
	for _, e := range evs {
		st := runRawEv(w, e)
		if st.impl == "" {
			c.Why = st.why
			if len(done) == 0 {
				return nil
			}
			break
		}
		cfg = st.cfg
		if st.dest != "" {
			dest = st.dest
		}
		impls = append(impls, st.impl)
		pres = append(pres, st.pre)
		ords = append(ords, st.ord)
		dords = append(dords, st.dord)
		e.mac = st.mac // the line names the Ethernet source the frame was received with
		done = append(done, e.String())
		nicTok = core.Hex(w.S.NICInfo.HostAddr4.MAC) + " " + core.Hex(w.S.NICInfo.RouterAddr4.MAC)
		if len(e.p) >= 240 {
			trivial = false
		}
		if st.impl == "panic" || st.impl == "hang" {
			broken = st.impl
			hangs++
			break
		}
	}
	rawStats(c, impls)
	line := fmt.Sprintf("dhcp.raw %d %d %s %s @ %d %s %s # %s %% %s %s", cfgIdx, mode, f[3], strings.Join(done, ";"), c11.NowH*c11.Hour, cfg, strings.Join(pres, " "), strings.Join(ords, " "), nicTok, strings.Join(dords, " "))
	return &core.Case{Line: line, Impl: strings.Join(impls, " / "), Trivial: trivial,
		Oracle: func() (string, string) {
			if broken != "" {
				return "dhcp4.ProcessPacket: the call did not return normally (" + broken + ") on a raw payload", ""
			}
			if dest != "" {
				return "dhcp4 reply on the wire: " + dest, ""
			}
			return "", ""
		}}
}

// rawStats: what the evaluated events were (evidence: coverage.dhcp_raw_events).
func rawStats(c *core.Ctx, impls []string) {
	m, _ := c.Res.Extra["dhcp_raw_events"].(map[string]int)
	if m == nil {
		m = map[string]int{}
		c.Res.Extra["dhcp_raw_events"] = m
	}
	for _, s := range impls {
		f := strings.Fields(s)
		if len(f) < 4 {
			m[s]++
			continue
		}
		m[f[1]]++
		st := strings.Split(f[2], "|")
		switch {
		case len(st) < 3:
		case st[2] == "-":
			m["no-reply"]++
		default:
			m["reply-"+strings.SplitN(st[2], ":", 2)[0]]++
		}
		if f[3] != "decl=-" {
			m["client-direction-"+f[3]]++
		}
	}
}

// ---------------------------------------------------------------------------------------------
// generators

type rawGen struct {
	c   *core.Ctx
	cfg *c11.NetCfg
	w   *c11.World
}

func be4(v uint32) []byte { return []byte{byte(v >> 24), byte(v >> 16), byte(v >> 8), byte(v)} }

// event crafts one payload from the CURRENT state of the generator's world: mostly messages that refer to a
// lease the server holds (its client id, hardware address, transaction, offered / leased address), so that every
// branch of the handlers is reached through the byte decoder.
func (g *rawGen) event() rawEv {
	e := g.pick()
	if g.c.Rnd.Intn(8) == 0 {
		e.p = inflate(g.c, e.p) // big.go: the same message with long options, up to the limit of a frame
	}
	return e
}

func (g *rawGen) pick() rawEv {
	if g.c.Rnd.Intn(2) == 0 {
		return g.clean()
	}
	return g.noisy()
}

// clean: a well-formed message of the kind a client in the chosen lease's state sends next (the server's happy
// paths and their near misses: one field off), options in random order, spare capacity varied.
func (g *rawGen) clean() rawEv {
	c, r := g.c, g.c.Rnd
	host := c11.U32(g.cfg.Host)
	leases := g.w.H.VerifDump().Leases
	mac := c11.Mac(r.Intn(4))
	var cid []byte
	xid := c.RandBytes(4)
	state := 0
	var offer, leased uint32
	if len(leases) > 0 && r.Intn(5) != 0 {
		l := leases[r.Intn(len(leases))]
		mac, state = l.MAC, l.State
		if !bytes.Equal(l.CID, l.MAC) {
			cid = l.CID
		}
		if len(l.XID) == 4 {
			xid = l.XID
		}
		if l.Offer.Is4() {
			offer = c11.U32(l.Offer)
		}
		if l.IP.Is4() {
			leased = c11.U32(l.IP)
		}
	} else if r.Intn(3) == 0 {
		cid = append([]byte{1}, mac...)
	}
	var opts [][]byte
	if cid != nil {
		opts = append(opts, opt(61, cid...))
	}
	ci, src := uint32(0), uint32(0)
	mt := byte(1)
	switch {
	case state == 1 && offer != 0 && r.Intn(4) != 0: // selecting
		mt = 3
		opts = append(opts, opt(50, be4(offer)...), opt(54, be4(host)...))
	case state == 2 && leased != 0:
		switch r.Intn(7) {
		case 0: // renewing
			mt, ci, src = 3, leased, leased
		case 1: // rebinding
			mt, ci, src = 3, leased, 0xffffffff
		case 2: // init-reboot
			mt = 3
			opts = append(opts, opt(50, be4(leased)...))
		case 3: // the same REQUEST again (duplicate selecting)
			mt = 3
			opts = append(opts, opt(50, be4(leased)...), opt(54, be4(host)...))
		case 4:
			mt = 4
			opts = append(opts, opt(50, be4(leased)...), opt(54, be4(host)...))
		case 5:
			mt, ci, src = 7, leased, leased
			opts = append(opts, opt(54, be4(host)...))
		default:
			xid = c.RandBytes(4) // a new DISCOVER of a client with a lease
		}
	default:
		if r.Intn(3) == 0 {
			xid = c.RandBytes(4)
		}
		if r.Intn(3) == 0 {
			opts = append(opts, opt(50, be4(c11.U32(g.cfg.Home.Addr())+2+uint32(r.Intn(12)))...))
		}
	}
	if r.Intn(8) == 0 { // what another DHCP server on the LAN answers the client: seen on the client port
		smt := []byte{2, 2, 2, 5, 6}[r.Intn(5)]
		sid := []uint32{c11.U32(g.cfg.Router), 0x08080808, host, 0}[r.Intn(4)]
		so := [][]byte{opt(53, smt), opt(54, be4(sid)...), opt(51, 0, 0, 14, 16)}
		if cid != nil && r.Intn(2) == 0 {
			so = append(so, opt(61, cid...))
		}
		r.Shuffle(len(so), func(i, j int) { so[i], so[j] = so[j], so[i] })
		yi := c11.U32(g.cfg.Home.Addr()) + 2 + uint32(r.Intn(12))
		return rawEv{"s", c11.U32(g.cfg.Router), []int{0, 60, 1200}[r.Intn(3)], message(2, xid, 0, 0, yi, mac, so, true), nil}
	}
	opts = append(opts, opt(53, mt))
	if r.Intn(2) == 0 {
		prl := []byte{1, 3, 6, 15, 121, 33}
		if r.Intn(2) == 0 { // any order: the reply's option order follows it, the subnet mask must still come first
			r.Shuffle(len(prl), func(i, j int) { prl[i], prl[j] = prl[j], prl[i] })
		}
		opts = append(opts, opt(55, prl...))
	}
	if r.Intn(3) == 0 {
		opts = append(opts, opt(12, []byte("host-"+strconv.Itoa(r.Intn(9)))...))
	}
	r.Shuffle(len(opts), func(i, j int) { opts[i], opts[j] = opts[j], opts[i] })
	p := message(1, xid, uint16(r.Intn(2))<<15, ci, 0, mac, opts, true)
	if r.Intn(2) == 0 && len(p) < 300 {
		p = append(p, make([]byte, 300-len(p))...)
	}
	if r.Intn(6) == 0 { // near miss: one byte of the message off
		p[[]int{4, 7, 12, 15, 28, 33, 240 + r.Intn(len(p)-240)}[r.Intn(7)]] ^= byte(1 + r.Intn(255))
	}
	return rawEv{"c", src, []int{0, 1, 9, 60, 1200, 1200}[r.Intn(6)], p, g.frameMAC()}
}

func (g *rawGen) noisy() rawEv {
	c, r := g.c, g.c.Rnd
	host, router := c11.U32(g.cfg.Host), c11.U32(g.cfg.Router)
	home := c11.U32(g.cfg.Home.Addr())
	nf := c11.U32(g.cfg.Netfilter.Masked().Addr())
	leases := g.w.H.VerifDump().Leases
	mac := c11.Mac(r.Intn(4))
	cid := []byte(nil)
	xid := c.RandBytes(4)
	var offer, leased uint32
	if len(leases) > 0 && r.Intn(4) != 0 {
		l := leases[r.Intn(len(leases))]
		mac = l.MAC
		if !bytes.Equal(l.CID, l.MAC) {
			cid = l.CID
		}
		if len(l.XID) == 4 && r.Intn(5) != 0 {
			xid = l.XID
		}
		if l.Offer.Is4() {
			offer = c11.U32(l.Offer)
		}
		if l.IP.Is4() {
			leased = c11.U32(l.IP)
		}
	} else if r.Intn(3) == 0 {
		cid = append([]byte{1}, mac...)
	}
	ips := []uint32{0, offer, leased, home + 1 + uint32(r.Intn(14)), nf + 1 + uint32(r.Intn(6)), host, router, 0x08080808, 0xffffffff}
	pickIP := func() uint32 { return ips[r.Intn(len(ips))] }
	mt := []byte{1, 1, 3, 3, 3, 3, 4, 7, 8, 2, 5, 6, 0, 9, byte(r.Intn(256))}[r.Intn(15)]
	var opts [][]byte
	switch r.Intn(14) {
	case 0: // no message type
	case 1:
		opts = append(opts, opt(53, mt, mt))
	case 2:
		opts = append(opts, opt(53))
	default:
		opts = append(opts, opt(53, mt))
	}
	if cid != nil || r.Intn(6) == 0 {
		id := cid
		switch r.Intn(12) {
		case 0:
			id = []byte{}
		case 1:
			id = c.RandBytes(1 + r.Intn(20))
		case 2:
			id = c.RandBytes(200 + r.Intn(56)) // a NAK echoing it needs more room than the request had
		}
		opts = append(opts, opt(61, id...))
	}
	req := uint32(0)
	if mt == 3 || mt == 4 || r.Intn(3) == 0 {
		req = []uint32{offer, leased, pickIP(), 0}[r.Intn(4)]
	}
	if req != 0 || r.Intn(8) == 0 {
		opts = append(opts, opt(50, be4(req)[:[]int{4, 4, 4, 4, 3, 0}[r.Intn(6)]]...))
	}
	if r.Intn(2) == 0 {
		srv := []uint32{host, host, host, router, 0, 0x08080808}[r.Intn(6)]
		v := be4(srv)
		switch r.Intn(10) {
		case 0:
			v = v[:2]
		case 1:
			v = append(make([]byte, 12), v...) // 16 bytes: parses as an IPv6 address
		}
		opts = append(opts, opt(54, v...))
	}
	if r.Intn(3) == 0 {
		opts = append(opts, opt(12, c.RandBytes(r.Intn(20))...))
	}
	if r.Intn(3) == 0 {
		opts = append(opts, opt(55, []byte{1, 3, 6, 15, 51, 54, 121, 33, byte(r.Intn(256))}[:r.Intn(10)]...))
	}
	if r.Intn(8) == 0 {
		opts = append(opts, opt(byte(1+r.Intn(254)), c.RandBytes(r.Intn(30))...))
	}
	if r.Intn(8) == 0 && len(opts) > 0 { // a second occurrence of an option: the last one wins
		d := opts[r.Intn(len(opts))]
		e := append([]byte{}, d...)
		if len(e) > 2 {
			e[2+r.Intn(len(e)-2)] ^= byte(1 + r.Intn(255))
		}
		opts = append(opts, e)
	}
	r.Shuffle(len(opts), func(i, j int) { opts[i], opts[j] = opts[j], opts[i] })
	if r.Intn(6) == 0 && len(opts) > 0 { // pad options in between
		k := r.Intn(len(opts))
		opts = append(opts[:k], append([][]byte{make([]byte, 1+r.Intn(3))}, opts[k:]...)...)
	}
	op, dir := byte(1), "c"
	if mt == 2 || mt == 5 || mt == 6 || r.Intn(12) == 0 {
		op, dir = 2, "s"
	}
	if r.Intn(8) == 0 {
		dir = []string{"c", "s"}[r.Intn(2)]
	}
	if r.Intn(10) == 0 {
		op = byte(1 + r.Intn(2))
	}
	if dir == "s" && r.Intn(6) == 0 {
		mac = []byte{0xff, 0xee, 0xdd, 0xcc, 0xbb, byte(r.Intn(256))} // one of our own storm addresses
	}
	fl := uint16(0)
	if r.Intn(3) == 0 {
		fl = 0x8000
	}
	ci := uint32(0)
	if mt == 3 && req == 0 || mt == 7 || r.Intn(5) == 0 {
		ci = []uint32{leased, leased, offer, pickIP()}[r.Intn(4)]
	}
	p := message(op, xid, fl, ci, pickIP(), mac, opts, r.Intn(12) != 0)
	switch r.Intn(10) {
	case 0:
		p[2] = byte(r.Intn(8)) // hlen
	case 1:
		p[236+r.Intn(4)] ^= 0x40 // cookie: never compared
	case 2:
		p[1] = byte(r.Intn(4)) // htype: ignored
	}
	if r.Intn(8) == 0 && len(p) < 300 {
		p = append(p, make([]byte, 300-len(p))...) // BOOTP padding up to 300
	}
	src := uint32(0)
	if ci != 0 && r.Intn(4) != 0 {
		src = ci
	} else if r.Intn(6) == 0 {
		src = []uint32{0xffffffff, leased, offer, home + 1 + uint32(r.Intn(14))}[r.Intn(4)]
	}
	extra := []int{0, 0, 0, 1, 5, 9, 60, 300, 1200, 1200}[r.Intn(10)]
	return rawEv{dir, src, extra, p, g.frameMAC()}
}

func (g *rawGen) line(mode int, cfgIdx int, setup string, evs []rawEv) string {
	parts := make([]string, len(evs))
	for i, e := range evs {
		parts[i] = e.String()
	}
	return fmt.Sprintf("dhcp.raw %d %d %s %s", cfgIdx, mode, setup, strings.Join(parts, ";"))
}

// GenRaw: histories of raw payloads.  The generator keeps a world of its own per history and crafts every next
// payload from that world's current leases (DISCOVER → the offered address → REQUEST naming it, renewals from the
// leased address, DECLINE / RELEASE of it, …), mixed with malformed and foreign messages; then every line is
// evaluated from scratch (fresh world) by Eval.
func GenRaw(c *core.Ctx) {
	GenDest(c) // frames.go: the destination rule, systematically
	genRawN(c, c.Scale(1500, 40000))
}

func genRawN(c *core.Ctx, n int) {
	r := c.Rnd
	for i := 0; i < n; i++ {
		if hangs >= 3 {
			c.Drop("dhcp.raw-history", "skipped: hang budget of dhcp.proc spent")
			continue
		}
		cfgIdx := r.Intn(c11.NumBase)
		mode := 1 + r.Intn(3)
		setup := "-"
		if r.Intn(3) != 0 {
			ops := c11.RandomHistory(c, cfgIdx, 1+r.Intn(6))
			var ss []string
			for _, o := range ops {
				if o.Kind != "restart" && o.Kind != "age" {
					ss = append(ss, o.String())
				}
			}
			if len(ss) > 0 {
				setup = strings.Join(ss, "+")
			}
		}
		w, _ := rawWorld(cfgIdx, mode, setup)
		if w == nil {
			c.Drop("dhcp.raw-history", "world not constructed")
			continue
		}
		g := &rawGen{c: c, cfg: &c11.Cfgs[cfgIdx], w: w}
		var evs []rawEv
		for k, m := 0, 1+r.Intn(5); k < m; k++ {
			e := g.event()
			st := runRawEv(w, e)
			if st.impl == "" || st.impl == "panic" || st.impl == "hang" {
				if st.impl != "" {
					evs = append(evs, e)
				}
				break
			}
			evs = append(evs, e)
		}
		if len(evs) == 0 {
			c.Drop("dhcp.raw-history", "no event dispatched")
			continue
		}
		add(c, "dhcp.raw-history", g.line(mode, cfgIdx, setup, evs))
		last := evs[len(evs)-1]
		prefix := evs[:len(evs)-1]
		if i%c.Scale(30, 300) == 0 { // the last payload cut at every length (option area) / every 8th (header)
			for cut := 0; cut <= len(last.p); cut++ {
				if cut < 236 && cut%8 != 0 {
					continue
				}
				e := last
				e.p = last.p[:cut]
				add(c, "dhcp.raw-truncated", g.line(mode, cfgIdx, setup, append(append([]rawEv{}, prefix...), e)))
			}
		}
		// one corruption of the last payload
		q := append([]byte{}, last.p...)
		switch r.Intn(5) {
		case 0:
			if len(q) > 240 {
				q[240+r.Intn(len(q)-240)] = []byte{0, 1, 2, 255, 254, 53, 61, 50, 54, byte(r.Intn(256))}[r.Intn(10)]
			}
		case 1:
			q[r.Intn(3)] = byte(r.Intn(8))
		case 2:
			for k := 1 + r.Intn(3); k > 0; k-- {
				q[r.Intn(len(q))] = byte(r.Intn(256))
			}
		case 3:
			q = append(q, c.RandBytes(r.Intn(12))...)
		case 4:
			q = q[:len(q)-1-r.Intn(min(len(q)-1, 12))]
		}
		e := last
		e.p = q
		add(c, "dhcp.raw-corrupt", g.line(mode, cfgIdx, setup, append(append([]rawEv{}, prefix...), e)))
	}
}
