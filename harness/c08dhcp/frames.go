package c08dhcp

// The FRAMES of the dhcp.raw lines (builder D): every frame the server writes for an event — the BOOTREPLY and, in
// the client direction, the forged DECLINE — is part of the compared string (`frames=` / `dframes=`, the whole
// Ethernet frame in hex) and must equal Model.Dhcp4Frame.replyFrame / declineFrame byte for byte.  Besides the
// comparison, the Go-side oracles below state the property clause (C07: "every frame written decodes as a complete
// packet of the intended protocol carrying the addresses requested, Ethernet source = the NIC's MAC, lengths and
// checksums consistent") independently, with offsets only:
//
//	replyFrameCheck : RFC 2131 section 4.1 as the library documents it ("If IP not available, broadcast"): a reply goes
//	                  to the SOURCE of the datagram it answers — the Ethernet source and IPv4 source of the request
//	                  frame as received — when that datagram had a source address, else to ff:ff:ff:ff:ff:ff /
//	                  255.255.255.255; UDP 67 -> 68; from the host's NIC MAC / address.
//	declineCheck    : the forged DECLINE is a BOOTREQUEST from the client's hardware address with the transaction id
//	                  of the OFFER it refuses, ciaddr 0, the offered address as option 50, the other server's
//	                  identifier as option 54, UDP 68 -> 67 to the router.
//
// FrameStage is the slice of these lines that runs as a stage of C07 and C12 (harness/main.go).

import (
	"bytes"
	"encoding/binary"
	"fmt"
	"strings"

	"verif/harness/c11"
	"verif/harness/core"
	"verif/harness/sess"
)

func sum16(b []byte) uint32 {
	var s uint32
	for i := 0; i+1 < len(b); i += 2 {
		s += uint32(b[i])<<8 | uint32(b[i+1])
	}
	if len(b)%2 == 1 {
		s += uint32(b[len(b)-1]) << 8
	}
	for s > 0xffff {
		s = s&0xffff + s>>16
	}
	return s
}

// udpFrameCheck: fr is a complete Ethernet II / IPv4 / UDP frame from (srcMAC, srcIP, sport) to (dstMAC, dstIP, dport)
// whose lengths agree with the bytes written and whose checksums verify.  "" = fine.
func udpFrameCheck(srcMAC []byte, srcIP uint32, dstMAC []byte, dstIP uint32, sport, dport uint16, fr []byte) string {
	if len(fr) < 14+20+8 {
		return fmt.Sprintf("%d bytes: no room for Ethernet, IPv4 and UDP headers", len(fr))
	}
	if !bytes.Equal(fr[6:12], srcMAC) {
		return fmt.Sprintf("Ethernet source %x, the NIC's MAC is %x", fr[6:12], srcMAC)
	}
	if !bytes.Equal(fr[0:6], dstMAC) {
		return fmt.Sprintf("Ethernet destination %x, want %x", fr[0:6], dstMAC)
	}
	if fr[12] != 0x08 || fr[13] != 0x00 {
		return fmt.Sprintf("EtherType %x", fr[12:14])
	}
	ip := fr[14:]
	if ip[0] != 0x45 {
		return fmt.Sprintf("IPv4 version/IHL byte %#x", ip[0])
	}
	if tl := int(binary.BigEndian.Uint16(ip[2:])); tl != len(ip) {
		return fmt.Sprintf("IPv4 total length %d, %d bytes follow the Ethernet header", tl, len(ip))
	}
	if binary.BigEndian.Uint16(ip[6:])&0x3fff != 0 {
		return "IPv4 datagram is a fragment"
	}
	if ip[8] == 0 {
		return "IPv4 TTL 0"
	}
	if ip[9] != 17 {
		return fmt.Sprintf("IPv4 protocol %d, want UDP", ip[9])
	}
	if sum16(ip[:20]) != 0xffff {
		return "IPv4 header checksum does not verify"
	}
	if got := binary.BigEndian.Uint32(ip[12:]); got != srcIP {
		return fmt.Sprintf("IPv4 source %s, the host is %s", ipStr(got), ipStr(srcIP))
	}
	if got := binary.BigEndian.Uint32(ip[16:]); got != dstIP {
		return fmt.Sprintf("IPv4 destination %s, want %s (Ethernet destination %x)", ipStr(got), ipStr(dstIP), fr[0:6])
	}
	u := ip[20:]
	if sp, dp := binary.BigEndian.Uint16(u[0:]), binary.BigEndian.Uint16(u[2:]); sp != sport || dp != dport {
		return fmt.Sprintf("UDP ports %d -> %d, want %d -> %d", sp, dp, sport, dport)
	}
	if ul := int(binary.BigEndian.Uint16(u[4:])); ul != len(u) {
		return fmt.Sprintf("UDP length %d, %d bytes follow the IPv4 header", ul, len(u))
	}
	if ck := binary.BigEndian.Uint16(u[6:]); ck != 0 { // 0 = no checksum (RFC 768); otherwise it must verify
		ps := make([]byte, 12, 12+len(u)+1)
		copy(ps[0:8], ip[12:20])
		ps[9] = 17
		binary.BigEndian.PutUint16(ps[10:], uint16(len(u)))
		if sum16(append(ps, u...)) != 0xffff {
			return "UDP checksum present and does not verify"
		}
	}
	return ""
}

func ipStr(v uint32) string { return fmt.Sprintf("%d.%d.%d.%d", v>>24, v>>16&255, v>>8&255, v&255) }

var bcastMAC = []byte{0xff, 0xff, 0xff, 0xff, 0xff, 0xff}

// replyFrameCheck: the destination rule, stated on the REQUEST as it was received (its Ethernet source reqMAC and its
// IPv4 source reqSrc) — never on a field of the reply.
func replyFrameCheck(hostMAC []byte, hostIP uint32, reqMAC []byte, reqSrc uint32, fr []byte) string {
	dstMAC, dstIP := reqMAC, reqSrc
	if reqSrc == 0 {
		dstMAC, dstIP = bcastMAC, 0xffffffff
	}
	return udpFrameCheck(hostMAC, hostIP, dstMAC, dstIP, 67, 68, fr)
}

// lastOption: value of option `code` in a DHCP message (last occurrence, pad skipped, stops at the end option);
// nil, false when absent.
func lastOption(d []byte, code byte) (v []byte, ok bool) {
	if len(d) < 240 {
		return nil, false
	}
	for o := d[240:]; len(o) >= 2 && o[0] != 255; {
		if o[0] == 0 {
			o = o[1:]
			continue
		}
		if len(o) < 2+int(o[1]) {
			break
		}
		if o[0] == code {
			v, ok = o[2:2+int(o[1])], true
		}
		o = o[2+int(o[1]):]
	}
	return v, ok
}

// optionOrder: option codes of a DHCP message in wire order.
func optionOrder(d []byte) []byte {
	var ord []byte
	if len(d) < 240 {
		return ord
	}
	for o := d[240:]; len(o) >= 2 && o[0] != 255; {
		if o[0] == 0 {
			o = o[1:]
			continue
		}
		if len(o) < 2+int(o[1]) {
			break
		}
		ord = append(ord, o[0])
		o = o[2+int(o[1]):]
	}
	return ord
}

// declineCheck: the forged DECLINE `d` (UDP payload) answers the OFFER `offer` (the payload received on port 68).
func declineCheck(offer, d []byte) string {
	if len(d) < 300 {
		return fmt.Sprintf("%d bytes (BOOTP minimum is 300)", len(d))
	}
	if len(offer) < 240 {
		return "sent for a message shorter than 240 bytes"
	}
	if d[0] != 1 || d[1] != 1 || d[2] != 6 || d[3] != 0 {
		return fmt.Sprintf("op/htype/hlen/hops = % x, want 01 01 06 00", d[0:4])
	}
	if !bytes.Equal(d[4:8], offer[4:8]) {
		return fmt.Sprintf("xid %x, the OFFER has %x", d[4:8], offer[4:8])
	}
	if !bytes.Equal(d[28:34], offer[28:34]) {
		return fmt.Sprintf("chaddr %x, the OFFER is for %x", d[28:34], offer[28:34])
	}
	for i, b := range d[:236] {
		if b != 0 && (i >= 8 && i < 28 || i >= 34) {
			return fmt.Sprintf("byte %d = %#x (secs / flags / ciaddr / yiaddr / siaddr / giaddr / chaddr padding / sname / file must be zero in a DECLINE)", i, b)
		}
	}
	if !bytes.Equal(d[236:240], []byte{99, 130, 83, 99}) {
		return fmt.Sprintf("magic cookie % x", d[236:240])
	}
	if t, _ := lastOption(d, 53); !bytes.Equal(t, []byte{4}) {
		return fmt.Sprintf("message type option % x, want 04", t)
	}
	if v, _ := lastOption(d, 50); !bytes.Equal(v, offer[16:20]) {
		return fmt.Sprintf("requested address option % x, the OFFER's yiaddr is % x", v, offer[16:20])
	}
	srv, _ := lastOption(offer, 54)
	if v, _ := lastOption(d, 54); !bytes.Equal(v, srv) {
		return fmt.Sprintf("server identifier % x, the OFFER came from % x", v, srv)
	}
	id, ok := lastOption(offer, 61)
	if !ok || len(id) == 0 {
		id = offer[28:34]
	}
	if v, _ := lastOption(d, 61); !bytes.Equal(v, id) {
		return fmt.Sprintf("client identifier % x, the client is % x", v, id)
	}
	return ""
}

// frameMAC: the Ethernet source of a generated frame; mostly nil (chaddr / the router: what rawFrame chooses), one in
// four frames comes from another station (a relay, a router forwarding a unicast renewal, a client with a spoofed chaddr).
func (g *rawGen) frameMAC() []byte {
	r := g.c.Rnd
	switch r.Intn(8) {
	case 0:
		return c11.Mac(r.Intn(4))
	case 1:
		return append([]byte{}, sess.RouterMAC...)
	}
	return nil
}

// GenDest: the destination rule, systematically.  Per configuration x mode a client obtains a lease (DISCOVER, REQUEST
// selecting the offered address); then ONE more message of it, for every combination of
//   IPv4 source of the datagram  : 0.0.0.0 | the leased address | another address of the subnet | 255.255.255.255
//   broadcast flag               : clear | set
//   ciaddr                       : 0 (init-reboot: option 50 names the lease) | the leased address | another address
//   Ethernet source of the frame : chaddr | another station
// as REQUEST (answered ACK or NAK), and as a new DISCOVER (OFFER); the same REQUESTs once more after the client
// RELEASEd the lease (late renewals: NAK or silence).
func GenDest(c *core.Ctx) {
	for cfgIdx := 0; cfgIdx < c11.NumBase; cfgIdx++ {
		for mode := 1; mode <= 3; mode++ {
			w, _ := rawWorld(cfgIdx, mode, "-")
			if w == nil {
				c.Drop("dhcp.raw-dest", "world not constructed")
				continue
			}
			g := &rawGen{c: c, cfg: &c11.Cfgs[cfgIdx], w: w}
			host := c11.U32(g.cfg.Host)
			mac := c11.Mac(cfgIdx + mode)
			xid := []byte{0x51, byte(cfgIdx), byte(mode), 0x07}
			prl := opt(55, 1, 3, 6, 15)
			disc := rawEv{"c", 0, 60, message(1, xid, 0, 0, 0, mac, [][]byte{opt(53, 1), prl}, true), nil}
			if st := runRawEv(w, disc); len(st.replies) != 1 || st.replies[0].Type != 2 {
				c.Drop("dhcp.raw-dest", "no OFFER for the opening DISCOVER")
				continue
			}
			offered := w.H.VerifDump().Leases
			var leased uint32
			for _, l := range offered {
				if bytes.Equal(l.MAC, mac) && l.Offer.Is4() {
					leased = c11.U32(l.Offer)
				}
			}
			if leased == 0 {
				c.Drop("dhcp.raw-dest", "no offered address in the lease table")
				continue
			}
			sel := rawEv{"c", 0, 60, message(1, xid, 0, 0, 0, mac, [][]byte{opt(53, 3), opt(50, be4(leased)...), opt(54, be4(host)...), prl}, true), nil}
			rel := rawEv{"c", leased, 60, message(1, xid, 0, leased, 0, mac, [][]byte{opt(53, 7), opt(54, be4(host)...)}, true), nil}
			other := leased ^ 1
			if other&0xff == 0 || other&0xff == 0xff {
				other = leased ^ 2
			}
			station := []byte{0x02, 0x5e, 0x00, byte(cfgIdx), byte(mode), 0x99}
			for _, prefix := range [][]rawEv{{disc, sel}, {disc, sel, rel}} {
				for _, src := range []uint32{0, leased, other, 0xffffffff} {
					for _, fl := range []uint16{0, 0x8000} {
						for _, fm := range [][]byte{nil, station} {
							for k, ci := range []uint32{0, leased, other} {
								opts := [][]byte{opt(53, 3), prl}
								if k == 0 {
									opts = append(opts, opt(50, be4(leased)...))
								}
								e := rawEv{"c", src, []int{0, 60, 1200}[k], message(1, xid, fl, ci, 0, mac, opts, true), fm}
								add(c, "dhcp.raw-dest", g.line(mode, cfgIdx, "-", append(append([]rawEv{}, prefix...), e)))
							}
							if len(prefix) == 2 {
								e := rawEv{"c", src, 60, message(1, []byte{0x52, 1, 2, 3}, fl, 0, 0, mac, [][]byte{opt(53, 1), prl}, true), fm}
								add(c, "dhcp.raw-dest", g.line(mode, cfgIdx, "-", append(append([]rawEv{}, prefix...), e)))
							}
						}
					}
				}
			}
		}
	}
}

// FrameStage: the slice of the dhcp.raw lines that runs inside C07 and C12 (every reply / forged DECLINE FRAME against
// Model.Dhcp4Frame.replyFrame / declineFrame and the Go-side destination oracle): the property's corpus lines of this
// kind, the systematic destination histories, and a few hundred random histories.
var FrameStage = core.Runner{Gen: func(c *core.Ctx) {
	c.Res.Rule = "dhcp.raw (stage): whole reply / forged DECLINE frames of the dhcp4 handler byte for byte against Model.Dhcp4Frame.replyFrame / declineFrame; systematic destination histories (IPv4 source 0 / lease / other / broadcast x broadcast flag x ciaddr 0 / lease / other x Ethernet source = chaddr / another station, as REQUEST after ACK, as REQUEST after RELEASE, as DISCOVER) and random raw histories; Go-side oracle: reply to the datagram's source when it has one, else broadcast; Ethernet source = NIC MAC; lengths and checksums verify"
	for _, l := range c.CorpusLines() {
		if strings.HasPrefix(l, "dhcp.raw ") {
			add(c, "corpus", l)
		}
	}
	GenDest(c)
	genRawN(c, c.Scale(250, 8000))
}, Eval: func(c *core.Ctx, line string) *core.Case {
	if strings.HasPrefix(line, "dhcp.raw ") {
		return Eval(c, line)
	}
	return nil
}}
